"""C08: save / load round trips.

Assumed contract of h5py (trusted base; validated by the bounded tier against the installed version and implemented literally by the
in-memory `FakeH5`): a file is a map key -> dataset; create_dataset(key, data=a) stores the structured array a exactly (NaN included) /
create_dataset(key, shape=()) stores an empty scalar dataset; dataset.attrs is a map name -> scalar stored exactly; keys() lists the
keys; iterating a dataset yields its rows in order; dataset[field] is that column."""
from __future__ import annotations

import ast

import z3

from pyvc import heap as H, models, ops, source
from pyvc.bounded import Bounded
from pyvc.contract import Contract, Lemma, loop, register
from pyvc.engine import LoopSpec, SymRaise, _MISSING
from pyvc.values import (SClassRef, SExc, SNative, SObj, SOpaque, SSeq, Undecided, const_of, is_num, to_real, to_z3)

EM = "droplets.emulsions"
TR = "droplets.droplet_tracks"
DM = "droplets.droplets"
I, B, Rl = z3.IntSort(), z3.BoolSort(), z3.RealSort()


# =====================================================================================================================
# key order lemma: digit-tuple model of f"{prefix}{i:06d}"
def digits(i, width, name):
    """digits d_{width-1} ... d_0 of i (most significant first) as z3 Ints with the defining constraints"""
    ds = [z3.Int(f"{name}_d{k}") for k in range(width)]
    cons = [z3.And(d >= 0, d <= 9) for d in ds]
    cons.append(i == sum(d * 10 ** (width - 1 - k) for k, d in enumerate(ds)))
    return ds, cons


def lex_less(a, b):
    """strict lexicographic order of two digit strings (lists, most significant first); a shorter string that is a prefix is smaller"""
    n = min(len(a), len(b))
    out = z3.BoolVal(len(a) < len(b))         # all common digits equal: the shorter one is smaller
    for k in range(n - 1, -1, -1):
        out = z3.If(a[k] < b[k], True, z3.If(a[k] > b[k], False, out))
    return out


def key_digits(i, name, pad=6, total=None):
    """the characters after the prefix of f"{prefix}{i:0{pad}d}" for 10**(total-1) <= i < 10**total (total > pad) or i < 10**pad"""
    w = pad if total is None else total
    ds, cons = digits(i, w, name)
    if total is not None:
        cons.append(ds[0] >= 1)
    return ds, cons


class KeyOrderPlain(Lemma):
    """sorted(keys) of keys f"{prefix}{i:06d}" returns them in index order as long as there are at most 10**6 of them"""
    name = "zero-padded-keys-sort-in-index-order-below-1e6"
    trusted = ("python: f'{i:06d}' is the decimal representation of i >= 0, left-padded with zeros to at least 6 characters; str order is "
               "lexicographic by code point and the digits 0..9 are ordered; sorted() sorts by that order",)
    model_vars = {"i": z3.Int("i"), "j": z3.Int("j")}

    def obligations(self):
        i, j = z3.Ints("i j")
        a, ca = key_digits(i, "a")
        b, cb = key_digits(j, "b")
        yield ("i < j < 10**6: key(i) sorts before key(j)", ca + cb + [0 <= i, i < j, j < 10 ** 6], lex_less(a, b))


class KeyOrderLen(Lemma):
    """sorted(keys, key=lambda k: (len(k), k)) returns the keys f"{prefix}{i:06d}" in index order (checked up to 18 digits)"""
    name = "zero-padded-keys-sort-in-index-order-by-length-then-key"
    trusted = KeyOrderPlain.trusted + ("tuples compare lexicographically; indices beyond 10**18 are not considered",)
    model_vars = {"i": z3.Int("i"), "j": z3.Int("j")}

    @staticmethod
    def less(a, b):
        if len(a) != len(b):
            return z3.BoolVal(len(a) < len(b))
        return lex_less(a, b)

    def obligations(self):
        i, j = z3.Ints("i j")
        a, ca = key_digits(i, "a")
        b, cb = key_digits(j, "b")
        yield ("i < j < 10**6: key(i) sorts before key(j)", ca + cb + [0 <= i, i < j, j < 10 ** 6], self.less(a, b))
        for total in range(7, 19):
            b, cb = key_digits(j, "b", total=total)
            yield (f"i < 10**6 <= j < 10**{total} ({total} digits): key(i) sorts before key(j)", ca + cb + [0 <= i, i < 10 ** 6], self.less(a, b))
            a2, ca2 = key_digits(i, "a", total=total)
            yield (f"i < j, both with {total} digits: key(i) sorts before key(j)", ca2 + cb + [i < j], self.less(a2, b))
            if total < 18:
                b3, cb3 = key_digits(j, "b", total=total + 1)
                yield (f"{total} digits vs {total + 1} digits: key(i) sorts before key(j)", ca2 + cb3, self.less(a2, b3))


class KeyOrderPlainUnbounded(Lemma):
    """the obligation that plain sorted() would need beyond 10**6 members: it FAILS (time_1000000 < time_999999); kept to produce the
    counterexample when a from_file uses plain sorted()"""
    name = "plain-sorted-keys-beyond-1e6"
    model_vars = {"i": z3.Int("i"), "j": z3.Int("j")}

    def obligations(self):
        i, j = z3.Ints("i j")
        a, ca = key_digits(i, "a")
        b, cb = key_digits(j, "b", total=7)
        yield ("i < 10**6 <= j < 10**7: key(i) sorts before key(j) in plain string order", ca + cb + [0 <= i, i < 10 ** 6], lex_less(a, b))


# =====================================================================================================================
# in-memory h5py implementing the assumed contract (used to replay the key-order counterexample without writing 10**6 datasets
# to disk, and as an independent check that the code only relies on the assumed contract)
class FakeAttrs(dict):
    pass


class FakeDataset:
    def __init__(self, data=None, shape=None):
        import numpy as np
        self.attrs = FakeAttrs()
        self.data = None if data is None else np.array(data, copy=True)
        self.shape = () if data is None else self.data.shape

    def __iter__(self):
        if self.data is None:
            raise TypeError("Can't iterate over a scalar dataset")
        return iter(self.data)

    def __getitem__(self, k):
        return self.data[k]

    def __len__(self):
        if self.data is None:
            raise TypeError("Attempt to take len() of scalar dataset")
        return len(self.data)

    @property
    def dtype(self):
        return self.data.dtype

    def __array__(self, dtype=None, copy=None):
        return self.data


class FakeFile:
    STORE = {}

    def __init__(self, path, mode="r"):
        self.path, self.mode = path, mode
        if mode == "w":
            FakeFile.STORE[path] = dict(ds={}, attrs=FakeAttrs())
        self.st = FakeFile.STORE[path]
        self.attrs = self.st["attrs"]

    def __enter__(self):
        return self

    def __exit__(self, *a):
        return False

    def create_dataset(self, key, data=None, shape=None):
        if key in self.st["ds"]:
            raise ValueError("Unable to create dataset (name already exists)")
        d = FakeDataset(data, shape)
        self.st["ds"][key] = d
        return d

    def keys(self):
        return sorted(self.st["ds"].keys())       # h5py lists keys in alphabetical order by default

    def __len__(self):
        return len(self.st["ds"])

    def __getitem__(self, k):
        return self.st["ds"][k]

    def __iter__(self):
        return iter(self.keys())


class fake_h5py:
    """context manager: `import h5py` inside the library resolves to the in-memory implementation"""

    def __enter__(self):
        import sys
        import types
        self.old = sys.modules.get("h5py")
        m = types.ModuleType("h5py")
        m.File = FakeFile
        sys.modules["h5py"] = m
        return self

    def __exit__(self, *a):
        import sys
        if self.old is not None:
            sys.modules["h5py"] = self.old
        else:
            del sys.modules["h5py"]
        FakeFile.STORE.clear()
        return False


# =====================================================================================================================
# bounded stand-in: exhaustive class matrix with the real h5py (and the in-memory one)
def droplet_matrix(rng):
    """every droplet class x dimension x mode count x width {None, value}"""
    import numpy as np
    from droplets import droplets as D
    out = []
    for dim in (1, 2, 3):
        out.append(("SphericalDroplet", dim, lambda r, dim=dim: D.SphericalDroplet(r.normal(size=dim) * 5, float(r.random() * 3))))
        for w in (None, 0.0, 1.25):
            out.append(("DiffuseDroplet", dim, lambda r, dim=dim, w=w: D.DiffuseDroplet(r.normal(size=dim) * 5, float(r.random() * 3), w)))
    for modes in (1, 2, 3, 4):
        for w in (None, 0.7):
            out.append((f"PerturbedDroplet2D/{modes}", 2, lambda r, m=modes, w=w: D.PerturbedDroplet2D(r.normal(size=2), 1 + r.random(), w, r.uniform(-0.3, 0.3, m))))
            out.append((f"PerturbedDroplet3D/{modes}", 3, lambda r, m=modes, w=w: D.PerturbedDroplet3D(r.normal(size=3), 1 + r.random(), w, r.uniform(-0.3, 0.3, m))))
            out.append((f"PerturbedDroplet3DAxisSym/{modes}", 3, lambda r, m=modes, w=w: D.PerturbedDroplet3DAxisSym(
                np.array([0.0, 0.0, r.normal()]), 1 + r.random(), w, r.uniform(-0.3, 0.3, m))))
    return out


TIME_LISTS = [[0, 1, 2, 3, 4], [0.0, 0.5, 2.25, 2.5, 10.0], [-4, -2, 0, 2, 4], [-2.5, 0, 2.5, 5, 7.5], [3, 1, 2, 2, -1], [1e-300, 1.5, 1e300, -0.0, 7],
              [5, 4, 3, 2, 1], [0, 2.5, 2.75, 5, 7], [True, 0.25, 2, 2.5, 3], [2**53 + 1, 0.5, 1, 2, 3]]


def same_droplet(a, b):
    import numpy as np
    return type(a) is type(b) and a.data.dtype == b.data.dtype and a.data.tobytes() == b.data.tobytes()


def same_emulsion(a, b):
    return len(a) == len(b) and all(same_droplet(x, y) for x, y in zip(a, b))


def same_times(a, b):
    import numpy as np
    return len(a) == len(b) and all(float(x) == float(y) and (np.signbit(float(x)) == np.signbit(float(y))) for x, y in zip(a, b))


class RoundTrips(Bounded):
    name = "file-round-trips"
    bound = ("every droplet class (spherical, diffuse, 2D / 3D / axisymmetric perturbed) x dimension x 1-4 amplitudes x width {None, 0, value}: "
             "Emulsion (0, 1, 2, 5 members), EmulsionTimeCourse (0-5 frames incl. empty members, 7 time lists: ints, floats, negative, "
             "non-monotonic, repeated, -0.0, huge/tiny), DropletTrack, DropletTrackList (incl. empty tracks), vanished droplets (radius exactly 0), emulsions whose declared dtype is stale, mixed-class collections (must "
             "raise or round-trip); written with the real h5py and read back: classes, dtypes and parameter BYTES, times and order must be "
             "identical; quick: every class once per collection kind, thorough: all sizes x time lists; plus one pass through the in-memory "
             "h5py that implements only the assumed contract")

    def run(self, tier, seed):
        import itertools
        import os
        import tempfile
        import warnings
        import numpy as np
        warnings.filterwarnings("ignore")
        from droplets import DropletTrack, DropletTrackList, Emulsion, EmulsionTimeCourse
        rng = np.random.default_rng(seed + 8)
        ev, distinct, viol = 0, set(), {}
        tmp = tempfile.mkdtemp(prefix="c08_")
        path = os.path.join(tmp, "x.hdf5")

        def report(sig, what, inputs):
            viol.setdefault(sig, dict(signature=sig, what=what, inputs=inputs))

        def roundtrip(kind, obj, label, backend):
            """write + read; returns (status, object)"""
            nonlocal ev
            ev += 1
            distinct.add((kind, label, backend))
            cls = type(obj)
            try:
                if os.path.exists(path):
                    os.remove(path)
                obj.to_file(path)
            except Exception as e:   # noqa: BLE001  writing may raise, it must not write something else
                return "raised", e
            try:
                return "ok", cls.from_file(path) if kind in ("Emulsion", "DropletTrack") else cls.from_file(path, progress=False)
            except Exception as e:   # noqa: BLE001
                return "unreadable", e

        def check(kind, obj, label, backend="h5py"):
            st, back = roundtrip(kind, obj, label, backend)
            inputs = dict(kind=kind, label=label, backend=backend, seed=seed)
            if st == "raised":
                return st
            if st == "unreadable":
                report(f"{kind}:unreadable", f"{kind}: a file that was written without error cannot be read back ({type(back).__name__}: {back})", inputs)
                return st
            if kind == "Emulsion":
                ok = same_emulsion(obj, back)
            elif kind == "EmulsionTimeCourse":
                ok = same_times(obj.times, back.times) and len(obj.emulsions) == len(back.emulsions) and all(
                    same_emulsion(x, y) for x, y in zip(obj.emulsions, back.emulsions))
            elif kind == "DropletTrack":
                ok = same_times(obj.times, back.times) and same_emulsion(obj.droplets, back.droplets)
            else:
                ok = len(obj) == len(back) and all(same_times(x.times, y.times) and same_emulsion(x.droplets, y.droplets) for x, y in zip(obj, back))
            if not ok:
                report(f"{kind}:differs", f"{kind}: what is read back differs from what was written (class, dtype, parameter bytes, times or order)", inputs)
            return "same" if ok else "differs"

        mat = droplet_matrix(rng)
        sizes = [0, 1, 2, 5]
        try:
            for ci, (cname, dim, mk) in enumerate(mat):
                # the first two classes see every size and every time list in the quick tier, too (integer end points around fractional times,
                # booleans, integers beyond 2**53)
                szs = sizes if tier == "thorough" or ci < 2 else [sizes[(ci + k) % 4] for k in range(2)]
                tls = TIME_LISTS if tier == "thorough" or ci < 2 else [TIME_LISTS[(ci + k) % len(TIME_LISTS)] for k in range(2)]
                for n in szs:
                    em = Emulsion([mk(rng) for _ in range(n)])
                    check("Emulsion", em, f"{cname} d{dim} n{n}")
                for tl in tls:
                    for n in szs:
                        times = tl[:n]
                        etc = EmulsionTimeCourse([Emulsion([mk(rng) for _ in range((k + ci) % 3)]) for k in range(n)], times=times)
                        check("EmulsionTimeCourse", etc, f"{cname} d{dim} frames{n} times{times}")
                        tr = DropletTrack(droplets=[mk(rng) for _ in range(n)], times=times)
                        check("DropletTrack", tr, f"{cname} d{dim} n{n} times{times}")
                    tl2 = DropletTrackList([DropletTrack(droplets=[mk(rng) for _ in range(k)], times=tl[:k]) for k in (2, 0, 5, 1)][: 2 + ci % 3])
                    check("DropletTrackList", tl2, f"{cname} d{dim} times{tl}")
                    # a track filled one by one (the way tracking fills it)
                    tr = DropletTrack()
                    for t_ in tl:
                        tr.append(mk(rng), time=t_)
                    check("DropletTrack", tr, f"{cname} d{dim} appended times{tl}")
            # collections with an unusual history: vanished droplets (radius exactly 0, set after insertion or inserted as they are), an emulsion
            # whose DECLARED dtype is stale (created empty for one class, filled with another; a member replaced by item assignment)
            for ci, (cname, dim, mk) in enumerate(mat):
                if tier == "quick" and ci % 3:
                    continue
                a, b, c_ = mk(rng), mk(rng), mk(rng)
                b.radius = 0.0
                em = Emulsion([a, b, c_])
                check("Emulsion", em, f"{cname} d{dim} vanished member")
                etc = EmulsionTimeCourse([Emulsion([a, b]), Emulsion([b]), Emulsion([c_])], times=[0, 1, 2])
                check("EmulsionTimeCourse", etc, f"{cname} d{dim} vanished members")
                etc2 = EmulsionTimeCourse([Emulsion([a, c_])], times=[0.5])
                etc2.emulsions[0][1].radius = 0.0
                check("EmulsionTimeCourse", etc2, f"{cname} d{dim} radius set to 0 after insertion")
                tr = DropletTrack(droplets=[a, b, c_], times=[0, 1, 2])
                check("DropletTrack", tr, f"{cname} d{dim} vanished member")
                for (c2, d2, m2) in mat:
                    if d2 == dim and c2 != cname:
                        stale = Emulsion.empty(m2(rng))
                        stale.extend([mk(rng), mk(rng)])
                        check("Emulsion", stale, f"{cname} d{dim} in an emulsion declared for {c2}")
                        repl = Emulsion([m2(rng)])
                        repl[0] = mk(rng)
                        check("Emulsion", repl, f"{cname} d{dim} assigned into an emulsion of {c2}")
                        break
            # one class, different data layouts (numbers of amplitudes) in one collection: writing must raise or round-trip
            from droplets.droplets import PerturbedDroplet2D, PerturbedDroplet3D
            for mkp, dimp in ((lambda n_: PerturbedDroplet2D([1.0, 2.0], 3.0, 0.5, [0.1 * (q + 1) for q in range(n_)]), 2),
                              (lambda n_: PerturbedDroplet3D([1.0, 2.0, 0.5], 3.0, 0.5, [0.1 * (q + 1) for q in range(n_)]), 3)):
                for na, nb in ((2, 1), (1, 2), (4, 2)):
                    a, b = mkp(na), mkp(nb)
                    lab = f"amplitude counts {na}+{nb} d{dimp}"
                    check("Emulsion", Emulsion([a, b]), lab)
                    check("DropletTrack", DropletTrack(droplets=[a, b], times=[0, 1]), lab)
                    check("DropletTrackList", DropletTrackList([DropletTrack(droplets=[a, b], times=[0, 1])]), lab)
                    check("EmulsionTimeCourse", EmulsionTimeCourse([Emulsion([a, b])], times=[0]), lab)
            # collections mixing droplet classes: writing must raise or round-trip, never silently change a class
            for (c1, d1, m1), (c2, d2, m2) in itertools.combinations(mat, 2):
                if d1 != d2 or c1 == c2:
                    continue
                a, b = m1(rng), m2(rng)
                if tier == "quick" and not (a.data.dtype == b.data.dtype or (ev % 7 == 0)):
                    continue
                lab = f"mixed {c1}+{c2} d{d1}"
                check("Emulsion", Emulsion([a, b]), lab)
                check("EmulsionTimeCourse", EmulsionTimeCourse([Emulsion([a, b]), Emulsion([b])], times=[0, 1]), lab)
                tr = DropletTrack()
                tr.append(a, time=0)
                tr.append(b, time=1)
                check("DropletTrack", tr, lab)
                check("DropletTrackList", DropletTrackList([tr]), lab)
            # the same through the in-memory implementation of the assumed h5py contract
            with fake_h5py():
                for ci, (cname, dim, mk) in enumerate(mat[:: (1 if tier == "thorough" else 3)]):
                    tl = TIME_LISTS[ci % len(TIME_LISTS)]
                    check("EmulsionTimeCourse", EmulsionTimeCourse([Emulsion([mk(rng) for _ in range(k % 3)]) for k in range(5)], times=tl),
                          f"{cname} d{dim}", "fake")
                    check("DropletTrackList", DropletTrackList([DropletTrack(droplets=[mk(rng) for _ in range(k)], times=tl[:k]) for k in (2, 0, 5)]),
                          f"{cname} d{dim}", "fake")
        finally:
            import shutil
            shutil.rmtree(tmp, ignore_errors=True)
        return dict(evaluations=ev, distinct=len(distinct), violations=list(viol.values()))

    def replay(self, rec):
        r = self.run("thorough", int(rec.get("inputs", {}).get("seed", 0)))
        return dict(violated=[v["signature"] for v in r["violations"]], observed=r["violations"][:3])


def replay_key_order(i, j, kind="EmulsionTimeCourse"):
    """members i and j of a collection with j+1 members, written and read through the in-memory h5py: is the order restored?"""
    from droplets import DropletTrack, DropletTrackList, Emulsion, EmulsionTimeCourse
    n = j + 1
    with fake_h5py():
        if kind == "EmulsionTimeCourse":
            obj = EmulsionTimeCourse()
            e = Emulsion()
            obj.emulsions = [e] * n          # empty members; the time stamp identifies the member
            obj.times = list(range(n))
            obj.to_file("mem")
            back = EmulsionTimeCourse.from_file("mem", progress=False)
            got = [int(t) for t in back.times]
        else:
            obj = DropletTrackList()
            from droplets.droplets import SphericalDroplet
            for k in range(n):
                obj.append(DropletTrack())
            marked = DropletTrack(droplets=[SphericalDroplet([0.0], 1.0)], times=[float(j)])
            obj[j] = marked
            obj.to_file("mem")
            back = DropletTrackList.from_file("mem", progress=False)
            got = [k for k, t in enumerate(back) if len(t)]
            return dict(violated=[] if got == [j] else [f"track {j} of {n} is read back at position {got}"], observed=dict(n=n, position=got))
    bad = [k for k in (i, j) if k >= len(got) or got[k] != k]
    return dict(violated=[f"member {k} of {n} is read back at another position (found time stamp {got[k] if k < len(got) else None})" for k in bad],
                observed=dict(n=n, read_i=got[i], read_j=got[j]))


# =====================================================================================================================
# symbolic file model + contracts on the real I/O functions
class Sym:
    """generic recording symbolic object: attributes, methods (recorded calls), items, truth, length, iteration"""

    def __init__(self, name, term=None, attrs=None, methods=None, getitem=None, setitem=None, truth=None, length=None, iterate=None, cls_name=None):
        self.name, self.term = name, term
        self.attrs, self.methods = dict(attrs or {}), dict(methods or {})
        self.getitem, self.setitem, self.truth, self.length, self.iterate, self.cls_name = getitem, setitem, truth, length, iterate, cls_name

    def __repr__(self):
        return f"Sym({self.name})"

    def sym_getattr(self, run, attr):
        if attr in self.attrs:
            v = self.attrs[attr]
            return v(run) if callable(v) and getattr(v, "_lazy", False) else v
        if attr in self.methods:
            return SNative(lambda run2, a, k, f=self.methods[attr]: f(run2, list(a), dict(k)), f"{self.name}.{attr}")
        return _MISSING

    def sym_getitem(self, run, idx):
        if self.getitem is None:
            raise Undecided(f"{self.name}[...]")
        return self.getitem(run, idx)

    def sym_setitem(self, run, idx, v):
        if self.setitem is None:
            raise Undecided(f"{self.name}[...] = ...")
        return self.setitem(run, idx, v)

    def sym_enter(self, run):
        return self


def _add_optional_hooks():
    def sym_truth(self, E):
        if self.truth is None:
            raise Undecided(f"truth value of {self.name}")
        return self.truth

    def sym_len(self, run):
        if self.length is None:
            raise Undecided(f"len({self.name})")
        return self.length

    def sym_iter(self, run):
        if self.iterate is None:
            raise Undecided(f"iteration over {self.name}")
        return self.iterate(run)
    Sym.sym_truth, Sym.sym_len, Sym.sym_iter = sym_truth, sym_len, sym_iter


_add_optional_hooks()


def lazy(f):
    f._lazy = True
    return f


class Tag:
    """droplet_class attribute: a class name (term) or the string "None" """

    def __init__(self, term, is_none):
        self.term, self.is_none = term, is_none

    def sym_compare(self, run, op, other, reflected):
        if other == "None" and isinstance(op, (ast.Eq, ast.NotEq)):
            return self.is_none if isinstance(op, ast.Eq) else z3.Not(self.is_none)
        return NotImplemented


class WFile(Sym):
    """file opened for writing: records create_dataset calls and attribute assignments"""

    def __init__(self):
        self.created = []
        self.file_attrs = {}
        super().__init__("h5file", methods={"create_dataset": self._create},
                         attrs={"attrs": Sym("file.attrs", setitem=lambda run, k, v: self.file_attrs.__setitem__(k, v))})

    def _create(self, run, a, k):
        key = a[0] if a else k.get("name")
        rec = dict(key=key, data=k.get("data", a[1] if len(a) > 1 else None), shape=k.get("shape"), attrs={}, extra=set(k) - {"data", "shape", "name"})
        self.created.append(rec)
        run.trust("ASSUMED (h5py): create_dataset(key, data=a) stores a exactly under key; dataset.attrs[name] = v stores v exactly")
        return Sym(f"dataset[{len(self.created) - 1}]", attrs={"attrs": Sym("attrs", setitem=lambda run2, kk, v: rec["attrs"].__setitem__(kk, v))})


@models.external("h5py.File")
def _h5file(engine, run, a, k):
    g = run.ghost["io"]
    g["opened"].append(dict(path=a[0] if a else None, mode=a[1] if len(a) > 1 else k.get("mode", "r")))
    return g["file"]


@models.external("json.dumps")
def _dumps(engine, run, a, k):
    return SOpaque("json")


def is_key(key, prefix, index):
    """key is f"{prefix}{index:06d}" """
    if not isinstance(key, models.SFmt):
        return False
    parts = key.parts
    return (len(parts) == 2 and parts[0] == ("lit", prefix) and parts[1][0] == "val" and parts[1][2] == "06d" and
            z3.is_expr(parts[1][1]) and z3.eq(z3.simplify(to_z3(parts[1][1])), z3.simplify(to_z3(index))))


class MemberWriter:
    """a member (emulsion / track) of a collection seen from to_file: _write_hdf_dataset(fp, key) is recorded; its own contract is
    verified separately (WriteDataset below)"""

    def __init__(self, run, kind, ref):
        self.kind, self.ref = kind, ref

    def sym_getattr(self, run, attr):
        if attr == "_write_hdf_dataset":
            def w(run2, a, k):
                fp = a[0]
                key = a[1] if len(a) > 1 else k.get("key")
                run2.trust(f"contract:{self.kind}._write_hdf_dataset (verified separately): creates exactly one dataset under the given key holding "
                           "the member's data and class tag, and returns it")
                rec = dict(key=key, member=self.ref, attrs={}, file=fp)
                run2.ghost["io"]["member_writes"].append(rec)
                return Sym("member-dataset", attrs={"attrs": Sym("attrs", setitem=lambda run3, kk, v: rec["attrs"].__setitem__(kk, v))})
            return SNative(w, "_write_hdf_dataset")
        return _MISSING


def member_list(run, name, kind):
    n = run.input_int(f"n_{name}")
    run.assume(n >= 0)
    ref = z3.Function(f"{name}_member", I, I)
    lst = SSeq(n, lambda i: MemberWriter(run, kind, ref(to_z3(i))), name, "list")
    return lst, n, ref


class _BodyOnce(LoopSpec):
    """loop cut: no invariant is needed - the body contract (checked in after_body on the recorded effects of ONE generic iteration)
    plus induction over the iterations (trusted meta-argument, DESIGN 2.5) give the clause for every member"""
    force = True

    def invariant(self, run, env, i, seq):
        return []

    def before_body(self, run, env, i, seq):
        g = run.ghost["io"]
        g["iter"] = i
        g["member_writes"].clear()
        g["appends"].clear()
        if isinstance(g.get("file"), WFile):
            g["file"].created.clear()


# ---- EmulsionTimeCourse.to_file ------------------------------------------------------------------------------------------
KEY_ETC_TO = f"{EM}:EmulsionTimeCourse.to_file"
KEY_TL_TO = f"{TR}:DropletTrackList.to_file"
KEY_ETC_FROM = f"{EM}:EmulsionTimeCourse.from_file"
KEY_TL_FROM = f"{TR}:DropletTrackList.from_file"


@loop(KEY_ETC_TO, 0)
class ETCToFileLoop(_BodyOnce):
    def after_body(self, run, env, i, seq):
        g = run.ghost["io"]
        w = g["member_writes"]
        run.oblige("frame i: exactly one dataset is written, by the i-th emulsion, into the opened file",
                   z3.And(z3.BoolVal(len(w) == 1 and w[0]["file"] is g["file"]), w[0]["member"] == g["member_ref"](i)) if len(w) == 1 else z3.BoolVal(False),
                   kind="ensures", assume_after=False)
        if len(w) == 1:
            run.oblige('frame i is stored under the key f"time_{i:06d}"', z3.BoolVal(is_key(w[0]["key"], "time_", i)), kind="ensures", assume_after=False)
            t = w[0]["attrs"].get("time")
            run.oblige("frame i carries exactly its own time stamp as attribute `time` (and no other attribute)",
                       z3.And(z3.BoolVal(set(w[0]["attrs"]) == {"time"} and t is not None), to_real(t) == z3.Select(g["times"].elems, i)) if t is not None
                       else z3.BoolVal(False), kind="ensures", assume_after=False)
        g["body_checked"] = g.get("body_checked", 0) + 1


@register
class ETCToFile(Contract):
    key = KEY_ETC_TO
    modular = False

    def cases(self):
        return [dict(info="none")]

    def setup(self, run, case):
        from .collections import sym_real_list
        ems, n, ref = member_list(run, "emulsions", "Emulsion")
        times = sym_real_list(run, "etc_times")
        run.assume(to_z3(times.length) == n)
        me = SObj(source.get_class(EM, "EmulsionTimeCourse"), {"emulsions": ems, "times": times})
        run.ghost["io"] = dict(file=WFile(), opened=[], member_writes=[], appends=[], member_ref=ref, times=times)
        self.ctx = (run, me)
        return dict(self=me, path="out.hdf5", info=None)

    def post(self, a, ret, case):
        run, me = self.ctx
        g = run.ghost["io"]
        return [("the file is opened once, for writing, at the given path", len(g["opened"]) == 1 and g["opened"][0]["path"] == "out.hdf5" and g["opened"][0]["mode"] == "w"),
                ("the time course itself is not modified", me.fields["emulsions"] is a["self"].fields["emulsions"]),
                ("the loop body contract was checked or the collection is empty", True)]


@loop(KEY_TL_TO, 0)
class TLToFileLoop(_BodyOnce):
    def after_body(self, run, env, i, seq):
        g = run.ghost["io"]
        w = g["member_writes"]
        run.oblige("track i: exactly one dataset is written, by the i-th track, into the opened file",
                   z3.And(z3.BoolVal(len(w) == 1 and w[0]["file"] is g["file"]), w[0]["member"] == g["member_ref"](i)) if len(w) == 1 else z3.BoolVal(False),
                   kind="ensures", assume_after=False)
        if len(w) == 1:
            run.oblige('track i is stored under the key f"track_{i:06d}"', z3.BoolVal(is_key(w[0]["key"], "track_", i)), kind="ensures", assume_after=False)
            run.oblige("no attribute is attached to a track's dataset by the list", z3.BoolVal(not w[0]["attrs"]), kind="ensures", assume_after=False)


@register
class TLToFile(Contract):
    key = KEY_TL_TO
    modular = False

    def cases(self):
        return [dict(info="none")]

    def setup(self, run, case):
        tracks, n, ref = member_list(run, "tracks", "DropletTrack")
        run.ghost["io"] = dict(file=WFile(), opened=[], member_writes=[], appends=[], member_ref=ref)
        me = H.SListObj(run, source.get_class(TR, "DropletTrackList"), n, z3.Array("tl_elems", I, I),
                        lambda r: MemberWriter(run, "DropletTrack", r), tag="tracks")
        run.assume(z3.ForAll([z3.Int("mk")], z3.Select(me.elems, z3.Int("mk")) == ref(z3.Int("mk"))))
        self.ctx = (run, me)
        return dict(self=me, path="out.hdf5", info=None)

    def post(self, a, ret, case):
        run, me = self.ctx
        g = run.ghost["io"]
        return [("the file is opened once, for writing, at the given path", len(g["opened"]) == 1 and g["opened"][0]["path"] == "out.hdf5" and g["opened"][0]["mode"] == "w")]


# ---- reading --------------------------------------------------------------------------------------------------------------
class RFile(Sym):
    """file opened for reading with n datasets: key listing, sorted(), lookup by the j-th key of an order"""

    def __init__(self, run, n):
        self.n = n
        self.lookups = []
        super().__init__("h5file", methods={"keys": lambda run2, a, k: RKeys(self)}, length=n, getitem=self._get,
                         iterate=lambda run2: (_ for _ in ()).throw(Undecided("iterating the file directly")))

    def _get(self, run, idx):
        if isinstance(idx, RKey) and idx.file is self:
            self.lookups.append(idx)
            run.trust("ASSUMED (h5py): file[key] is the dataset stored under key, with the attributes stored with it")
            return read_dataset(run, self, idx)
        raise Undecided("lookup with something that is not one of the file's keys")


class RKeys:
    def __init__(self, file):
        self.file = file

    def sym_sorted(self, run, key=None):
        order = "plain"
        if key is not None:
            probe = RKey(self.file, z3.Int("probe_key"), "probe")
            eng = run.engine
            val = eng.invoke(run, key, [probe], {})
            if isinstance(val, tuple) and len(val) == 2 and val[1] is probe and isinstance(val[0], KeyLen) and val[0].key is probe:
                order = "len"
            else:
                order = "other"
        run.ghost["io"]["order"] = order
        f = self.file
        return SSeq(f.n, lambda j: RKey(f, to_z3(j), order), "sorted(keys)", "list")


class KeyLen:
    def __init__(self, key):
        self.key = key


class RKey:
    """the j-th key of the file in the given order"""

    def __init__(self, file, j, order):
        self.file, self.j, self.order = file, j, order

    def sym_len(self, run):
        return KeyLen(self)


def read_dataset(run, f, key):
    j = key.j
    tagt = z3.Function("tag_of_dataset", I, I)(j)
    isnone = z3.Function("dataset_is_empty", I, B)(j)
    nrows = z3.Function("rows_of_dataset", I, I)(j)
    timeattr = z3.Function("time_attr_of_dataset", I, Rl)(j)
    run.define(nrows >= 0, "a dataset has >= 0 rows")
    attrs = Sym("attrs", getitem=lambda run2, k: {"droplet_class": Tag(tagt, isnone), "time": timeattr}[k] if k in ("droplet_class", "time")
                else (_ for _ in ()).throw(SymRaise(SExc("KeyError", (k,)))))
    ds = Sym(f"dataset@{key.order}[{j}]", term=j, attrs={"attrs": attrs})
    ds.key, ds.nrows = key, nrows
    return ds


_old_sorted = models.BUILTINS["sorted"]


def _sorted2(run, a, k):
    v = a[0]
    if isinstance(v, RKeys):
        if set(k) - {"key"}:
            raise Undecided("sorted(..., reverse=...) of the file's keys")
        return v.sym_sorted(run, k.get("key"))
    return _old_sorted.fn(run, a, k) if isinstance(_old_sorted, SNative) else _old_sorted(run, a, k)


models.BUILTINS["sorted"] = SNative(_sorted2, "sorted") if isinstance(_old_sorted, SNative) else _sorted2


class Appender(SObj):
    """freshly constructed collection seen from from_file: append calls are recorded (append's own contract: C20 / C06)"""

    def __init__(self, cls, run):
        super().__init__(cls, {})
        self._run = run


def _appender_attr(engine, run, obj, attr):
    if isinstance(obj, Appender) and attr == "append":
        return SNative(lambda run2, a, k: run2.ghost["io"]["appends"].append((list(a), dict(k))), "append")
    return _MISSING


models.NATIVE_ATTRS.insert(0, _appender_attr)
_orig_getattr_io = None


def _patch_getattr():
    from pyvc import engine as E
    global _orig_getattr_io
    if _orig_getattr_io is not None:
        return
    _orig_getattr_io = E.Engine.getattr

    def getattr2(self, run, obj, attr, fr=None):
        if isinstance(obj, Appender) and attr == "append":
            return _appender_attr(self, run, obj, attr)
        return _orig_getattr_io(self, run, obj, attr, fr)
    E.Engine.getattr = getattr2


_patch_getattr()


def _io_ctor(eng, run, cls, args, kw):
    if args or kw:
        raise Undecided(f"{cls.name}(...) with arguments in from_file")
    obj = Appender(cls, run)
    run.ghost["io"]["constructed"].append(obj)
    return obj


class Decoded:
    """value of Emulsion._from_hdf_dataset(ds) / DropletTrack._from_hdf_dataset(ds) (their contracts are verified separately)"""

    def __init__(self, kind, ds):
        self.kind, self.ds = kind, ds


@register
class EmFromHdfCall(Contract):
    key = f"{EM}:Emulsion._from_hdf_dataset"
    variant = "call"
    call_site = True

    def cases(self):
        return []

    def apply(self, engine, run, fi, args, kwargs):
        if "io" not in run.ghost or len(args) != 2:
            return NotImplemented
        run.trust("contract:Emulsion._from_hdf_dataset (verified separately): decodes the dataset's rows with the dataset's class tag")
        return Decoded("Emulsion", args[1])


@register
class TrackFromHdfCall(Contract):
    key = f"{TR}:DropletTrack._from_hdf_dataset"
    variant = "call"
    call_site = True

    def cases(self):
        return []

    def apply(self, engine, run, fi, args, kwargs):
        if "io" not in run.ghost or len(args) != 2:
            return NotImplemented
        run.trust("contract:DropletTrack._from_hdf_dataset (verified separately): decodes rows and time column with the dataset's class tag")
        return Decoded("DropletTrack", args[1])


class _FromFileLoop(_BodyOnce):
    kind = "Emulsion"
    with_time = True

    def after_body(self, run, env, i, seq):
        g = run.ghost["io"]
        ap = g["appends"]
        ok = len(ap) == 1 and len(g["constructed"]) == 1
        run.oblige("step j: exactly one member is appended to the new collection", z3.BoolVal(ok), kind="ensures", assume_after=False)
        if not ok:
            return
        args, kw = ap[0]
        d = args[0] if args else None
        good = isinstance(d, Decoded) and d.kind == self.kind and isinstance(d.ds, Sym) and getattr(d.ds, "key", None) is not None
        run.oblige("step j: the appended member is decoded from the dataset stored under the j-th key of the visiting order",
                   z3.BoolVal(bool(good)) if not good else z3.And(d.ds.key.j == i, z3.BoolVal(d.ds.key.order in ("plain", "len"))), kind="ensures", assume_after=False)
        if self.with_time and good:
            t = kw.get("time", args[1] if len(args) > 1 else None)
            run.oblige("step j: it is appended with the time stamp stored with that very dataset",
                       z3.BoolVal(False) if t is None or not z3.is_expr(t) else t == z3.Function("time_attr_of_dataset", I, Rl)(d.ds.key.j),
                       kind="ensures", assume_after=False)
            run.oblige("step j: no other option is passed to append (members are stored as read)", z3.BoolVal(set(kw) <= {"time"} and len(args) <= 2),
                       kind="ensures", assume_after=False)


@loop(KEY_ETC_FROM, 0)
class ETCFromFileLoop(_FromFileLoop):
    kind, with_time = "Emulsion", True


@loop(KEY_TL_FROM, 0)
class TLFromFileLoop(_FromFileLoop):
    kind, with_time = "DropletTrack", False


class _FromFile(Contract):
    modular = False
    cls_mod, cls_name = EM, "EmulsionTimeCourse"

    def cases(self):
        return [dict(progress=p) for p in (True, False)]

    def setup(self, run, case):
        n = run.input_int("n_datasets")
        run.assume(n >= 0)
        f = RFile(run, n)
        run.ghost["io"] = dict(file=f, opened=[], member_writes=[], appends=[], constructed=[])
        models.CONSTRUCTORS[self.cls_name] = _io_ctor
        self.ctx = (run, f)
        return dict(cls=SClassRef(source.get_class(self.cls_mod, self.cls_name)), path="in.hdf5", progress=case["progress"])

    def call(self, engine, run, fi, a, case):
        return engine.call_function(run, fi, [a["cls"], a["path"]], {"progress": a["progress"]})

    def post(self, a, ret, case):
        run, f = self.ctx
        g = run.ghost["io"]
        order = g.get("order")
        out = [("the file is opened once, read-only, at the given path", len(g["opened"]) == 1 and g["opened"][0]["path"] == "in.hdf5" and g["opened"][0]["mode"] == "r"),
               ("the object returned is the collection that was filled", len(g["constructed"]) == 1 and ret is g["constructed"][0]),
               ("the datasets are visited in sorted key order (plain string order or (length, key) order - the orders for which the key lemma holds)",
                order in ("plain", "len"))]
        if order == "plain":
            # plain sorted() needs the key lemma without the 10**6 bound: this obligation is decided by the solver (it has a counter-model)
            for nm, assumptions, goal in KeyOrderPlainUnbounded().obligations():
                out.append((f"plain sorted() must restore the write order for every number of members: {nm}", z3.Implies(z3.And(*assumptions), goal)))
        return out

    # replay of the key-order obligations on the real functions through the in-memory h5py
    def realise(self, case, model):
        return dict(i=999_999, j=1_000_000)

    def concrete_run(self, case, inputs):
        kind = self.cls_name
        out = replay_key_order(int(inputs["i"]), int(inputs["j"]), kind)
        small = replay_key_order(3, 12, kind)
        return dict(violated=out["violated"] + small["violated"], observed=dict(large=out["observed"], small=small["observed"]), inputs=inputs)


@register
class ETCFromFile(_FromFile):
    key = KEY_ETC_FROM
    cls_mod, cls_name = EM, "EmulsionTimeCourse"


@register
class TLFromFile(_FromFile):
    key = KEY_TL_FROM
    cls_mod, cls_name = TR, "DropletTrackList"


if "pde.tools.output.display_progress" not in models.EXTERNALS:
    @models.external("pde.tools.output.display_progress")
    def _display_progress(engine, run, a, k):
        run.trust("A-PDE: display_progress(iterable, ...) yields the items of the iterable unchanged and in order")
        return a[0]


# =====================================================================================================================
# member level: Emulsion / DropletTrack  <->  one dataset
class ClassOf:
    """d.__class__ of a symbolic member: compared / collected by a class term"""

    def __init__(self, term):
        self.term = term

    def sym_set_key(self, run):
        return self.term

    def sym_getattr(self, run, attr):
        if attr == "__name__":
            return ClassName(self.term)
        return _MISSING


class ClassName:
    def __init__(self, term):
        self.term = term


CLS_OF = z3.Function("class_of_member", I, I)       # member index -> class
ROW_OF = z3.Function("record_of_member", I, I)      # member index -> its data record (all fields, exact)
DTYPE_OF = z3.Function("dtype_of_member", I, I)     # member index -> dtype of its record (NOT determined by / determining the class)


def sym_member(run, i, extra=None):
    """droplet number i of a collection: .__class__, .data (record term with .tolist() / .dtype.descr), .dim"""
    i = to_z3(i)
    dt = Sym("dtype", attrs={"descr": [Descr(CLS_OF(i))]})
    # two classes may share one dtype (PerturbedDroplet3D / 3DAxisSym): the dtype is a function of the record, not an injective image of the class
    dt.sym_set_key = lambda run2: DTYPE_OF(i)
    dt.dtype_term = DTYPE_OF(i)
    dt.sym_eq = lambda E, other: (DTYPE_OF(i) == other.dtype_term) if hasattr(other, "dtype_term") else False
    rec = Sym(f"data[{i}]", term=ROW_OF(i), methods={"tolist": lambda run2, a, k: (RowFields(ROW_OF(i)),)}, attrs={"dtype": dt})
    at = {"__class__": ClassOf(CLS_OF(i)), "data": rec}
    at.update(extra or {})
    m = Sym(f"member[{i}]", term=i, attrs=at)
    m.index = i
    return m


class RowFields:
    """the field values of one droplet record, in dtype order (an opaque tuple element)"""

    def __init__(self, term):
        self.term = term


class Descr:
    """dtype.descr of the droplets of one class"""

    def __init__(self, cls_term):
        self.cls_term = cls_term


def sym_members(run, name):
    n = run.input_int(f"n_{name}")
    run.assume(n >= 0)
    return SSeq(n, lambda i: sym_member(run, i), name, "list"), n


@register
class EmulsionDataGuard(Contract):
    """Emulsion.data: members of more than one class -> TypeError (so a written dataset has ONE class: the tag of member 0 is the class
    of every row); otherwise an array with one record per member, in order"""
    key = f"{EM}:Emulsion.data"
    modular = False

    def cases(self):
        return [dict()]

    def setup(self, run, case):
        mem, n = sym_members(run, "members")
        run.assume(n >= 1)
        me = H.SListObj(run, source.get_class(EM, "Emulsion"), n, z3.K(I, z3.IntVal(0)), None, tag="emulsion")
        me.at = mem.at
        me.sym_iter = lambda run2: mem
        run.ghost["members_dtype"] = SOpaque("dtype")
        me.fields = {"dtype": run.ghost["members_dtype"]}
        self.ctx = (run, mem, n)
        return dict(self=me)

    def _mixed(self):
        run, mem, n = self.ctx
        i, j = z3.Ints("gi gj")
        return z3.Exists([i, j], z3.And(i >= 0, i < n, j >= 0, j < n, CLS_OF(i) != CLS_OF(j)))

    def raises(self, a, exc, case):
        return [(f"Emulsion.data raises only TypeError, and only when the members have more than one class (raised {exc.cls_name})",
                 z3.And(z3.BoolVal(exc.cls_name == "TypeError"), self._mixed()))]

    def post(self, a, ret, case):
        run, mem, n = self.ctx
        out = [("Emulsion.data returns normally only if all members have the same class", z3.Not(self._mixed()))]
        g = run.ghost.get("np_array_of")
        out.append(("the array is built from the data records of all members, in order", g is not None and ret is g["result"] and g["length"] is mem.length))
        if g is not None:
            k = z3.Int("sk_k")
            v = g["at"](k)
            out.append(("row k is the record of member k", isinstance(v, Sym) and v.term is not None and z3.eq(z3.simplify(v.term), z3.simplify(ROW_OF(k)))))
        return out


_np_array_prev = models.EXTERNALS["numpy.array"]


@models.external("numpy.array")
def _np_array(engine, run, a, k):
    v = a[0] if a else None
    if isinstance(v, SSeq) and v.kind == "list" and "io_members" in run.ghost.get("flags", ()):
        pass
    if isinstance(v, SSeq) and len(a) == 1 and not k:
        probe = v.at(z3.Int("np_array_probe"))
        if isinstance(probe, Sym):
            res = Sym("np.array([...])", length=v.length, attrs={"dtype": run.ghost.get("members_dtype", SOpaque("dtype"))})
            run.ghost["np_array_of"] = dict(result=res, length=v.length, at=v.at)
            run.trust("numpy: np.array([r0, r1, ...]) of records is the structured array with these rows, in order")
            return res
    return _np_array_prev(engine, run, a, k)


# ---- Emulsion._write_hdf_dataset / DropletTrack._write_hdf_dataset ---------------------------------------------------------
class _WriteDataset(Contract):
    modular = False
    what = "emulsion"

    def cases(self):
        return [dict(empty=False), dict(empty=True)]

    def setup(self, run, case):
        n = run.input_int("n_members")
        run.assume(n == 0 if case["empty"] else n >= 1)
        payload = Sym("self.data", term=z3.Int("payload"))
        def member(run2, idx):
            c = const_of(idx) if is_num(idx) else None
            return sym_member(run2, n + int(c) if c is not None and c < 0 else idx)
        # `self.dtype` is the dtype the emulsion was DECLARED with; it need not describe the members (Emulsion.empty(a spherical droplet) filled with
        # diffuse ones, item assignment) - only `self.data` does
        me = Sym(self.what, truth=(n > 0), length=n, attrs={"data": payload, "dtype": SOpaque("declared dtype (possibly stale)"), "dim": SOpaque("dim")}, getitem=member)
        self.n = n
        f = WFile()
        run.ghost["io"] = dict(file=f, opened=[], member_writes=[], appends=[])
        self.ctx = (run, me, f, payload)
        return dict(self=me, hdf_path=f, key="some_key")

    def post(self, a, ret, case):
        run, me, f, payload = self.ctx
        c = f.created
        out = [("exactly one dataset is created, under the given key, and returned", len(c) == 1 and c[0]["key"] == "some_key" and isinstance(ret, Sym) and
                ret.name == "dataset[0]")]
        if len(c) != 1:
            return out
        out.append((f"the data array is stored as it is: no conversion options (got {sorted(c[0]['extra'])}) - a dtype taken from anywhere but the array itself may drop or reinterpret fields",
                    not c[0]["extra"]))
        tag = c[0]["attrs"].get("droplet_class")
        out.append(("the only attribute written is the class tag", set(c[0]["attrs"]) == {"droplet_class"}))
        if case["empty"]:
            out.append(('an empty collection is stored as an empty scalar dataset tagged "None"', c[0]["data"] is None and c[0]["shape"] == () and tag == "None"))
        else:
            out.append(("the payload is the collection's data array (`self.data`: one class, rows in member order)", c[0]["data"] is payload and c[0]["shape"] is None))
            m = z3.Int("some_member")
            out.append(("the class tag is the class name of a member (= the class of every row, by the guard of `data`)",
                        z3.Exists([m], z3.And(m >= 0, m < self.n, tag.term == CLS_OF(m))) if isinstance(tag, ClassName) else False))
        return out


@register
class EmWriteDataset(_WriteDataset):
    key = f"{EM}:Emulsion._write_hdf_dataset"
    what = "emulsion"


@register
class TrackWriteDataset(_WriteDataset):
    key = f"{TR}:DropletTrack._write_hdf_dataset"
    what = "track"


# ---- Emulsion._from_hdf_dataset / DropletTrack._from_hdf_dataset -----------------------------------------------------------
class Reconstructed:
    """droplet_from_data(tag, row): its own behaviour (class registry + field transport) is covered by the exhaustive class matrix"""

    def __init__(self, tag, row):
        self.tag, self.row = tag, row


@register
class DropletFromDataCall(Contract):
    key = f"{DM}:droplet_from_data"
    variant = "call"
    call_site = True

    def cases(self):
        return []

    def apply(self, engine, run, fi, args, kwargs):
        if "io" not in run.ghost:
            return NotImplemented
        run.trust("droplet_from_data(class name, record) re-creates the droplet of that class with exactly these field values (bounded: exhaustive class matrix)")
        return Reconstructed(args[0], args[1])


ROW_IN = z3.Function("row_of_dataset", I, I, I)     # (dataset, row index) -> stored record
TIME_IN = z3.Function("time_column_of_dataset", I, I, Rl)


def sym_dataset(run, with_time):
    j = z3.Int("the_dataset")
    n = run.input_int("n_rows")
    run.assume(n >= 0)
    tag = Tag(z3.Int("stored_tag"), run.input_bool("tag_is_None"))
    attrs = Sym("attrs", getitem=lambda run2, k: tag if k == "droplet_class" else (_ for _ in ()).throw(SymRaise(SExc("KeyError", (k,)))))
    rows = SSeq(n, lambda i: Sym("row", term=ROW_IN(j, to_z3(i))), "rows", "list")
    ds = Sym("dataset", term=j, attrs={"attrs": attrs}, iterate=lambda run2: rows, length=n)
    if with_time:
        ds.getitem = lambda run2, k: SSeq(n, lambda i: TIME_IN(j, to_z3(i)), "time column", "list") if k == "time" else \
            (_ for _ in ()).throw(Undecided(f"dataset[{k!r}]"))
    return ds, n, tag, j


class CtorRec(SObj):
    def __init__(self, cls, args, kwargs):
        super().__init__(cls, {})
        self.args, self.kwargs = list(args), dict(kwargs)


@register
class EmFromDataset(Contract):
    key = f"{EM}:Emulsion._from_hdf_dataset"
    modular = False

    def cases(self):
        return [dict()]

    def setup(self, run, case):
        ds, n, tag, j = sym_dataset(run, False)
        run.ghost["io"] = dict(file=None, opened=[], member_writes=[], appends=[])
        models.CONSTRUCTORS["Emulsion"] = lambda eng, run2, cls, args, kw: CtorRec(cls, args, kw)
        self.ctx = (run, ds, n, tag, j)
        return dict(cls=SClassRef(source.get_class(EM, "Emulsion")), dataset=ds)

    def post(self, a, ret, case):
        run, ds, n, tag, j = self.ctx
        if not isinstance(ret, CtorRec) or len(ret.args) != 1:
            return [("returns cls(droplets, copy=False)", False)]
        out = [("the members read from the file are stored as they are (copy=False), nothing else is passed", ret.kwargs == {"copy": False})]
        d = ret.args[0]
        if isinstance(d, list):
            out.append(('an empty list of members is produced exactly for the tag "None"', z3.And(z3.BoolVal(d == []), tag.is_none)))
            return out
        out.append(('a dataset tagged "None" gives an empty emulsion', z3.Not(tag.is_none)))
        ok = isinstance(d, SSeq)
        out.append(("one member per stored row, in order", ok and d.length is n))
        if ok:
            k = z3.Int("sk_row")
            v = d.at(k)
            out.append(("member k is re-created from row k with the dataset's class tag",
                        isinstance(v, Reconstructed) and v.tag is tag and isinstance(v.row, Sym) and z3.eq(z3.simplify(v.row.term), z3.simplify(ROW_IN(j, k)))))
        return out


# DropletTrack._from_hdf_dataset: obj = cls(); for time, data in zip(times, droplet_data): obj.append(droplet_from_data(cls, data), time=time)
KEY_TR_FROM = f"{TR}:DropletTrack._from_hdf_dataset"


@models.external("numpy.lib.recfunctions.rec_drop_fields")
def _rec_drop_fields(engine, run, a, k):
    ds, name = a[0], a[1]
    if not (isinstance(ds, Sym) and ds.iterate is not None):
        raise Undecided("rec_drop_fields of something that is not the dataset")
    run.trust("ASSUMED (numpy): rec_drop_fields(a, name) has the rows of a, in order, without the named column (other fields exact)")
    rows = ds.iterate(run)
    run.ghost["io"]["dropped"] = name
    return SSeq(rows.length, lambda i: Sym("row-without-time", term=rows.at(i).term), "rows without time", "list")


@loop(KEY_TR_FROM, 0)
class TrackFromLoop(_BodyOnce):
    def after_body(self, run, env, i, seq):
        g = run.ghost["io"]
        ap = g["appends"]
        ok = len(ap) == 1
        run.oblige("row k: exactly one droplet is appended to the new track", z3.BoolVal(ok), kind="ensures", assume_after=False)
        if not ok:
            return
        args, kw = ap[0]
        d = args[0] if args else None
        j = g["dataset_term"]
        good = isinstance(d, Reconstructed) and d.tag is g["tag"] and isinstance(d.row, Sym)
        run.oblige("row k: the droplet is re-created from row k (time column removed) with the dataset's class tag",
                   z3.And(z3.BoolVal(g.get("dropped") == "time"), d.row.term == ROW_IN(j, i)) if good else z3.BoolVal(False), kind="ensures", assume_after=False)
        t = kw.get("time", args[1] if len(args) > 1 else None)
        run.oblige("row k: it is appended with the time stored in row k of the time column",
                   t == TIME_IN(j, i) if z3.is_expr(t) else z3.BoolVal(False), kind="ensures", assume_after=False)


@register
class TrackFromDataset(Contract):
    key = KEY_TR_FROM
    modular = False

    def cases(self):
        return [dict()]

    def setup(self, run, case):
        ds, n, tag, j = sym_dataset(run, True)
        run.ghost["io"] = dict(file=None, opened=[], member_writes=[], appends=[], constructed=[], tag=tag, dataset_term=j)
        models.CONSTRUCTORS["DropletTrack"] = _io_ctor
        self.ctx = (run, ds, n, tag, j)
        return dict(cls=SClassRef(source.get_class(TR, "DropletTrack")), dataset=ds)

    def post(self, a, ret, case):
        run, ds, n, tag, j = self.ctx
        g = run.ghost["io"]
        return [("the new track is returned", len(g["constructed"]) == 1 and ret is g["constructed"][0]),
                ('a dataset tagged "None" gives an empty track; any other tag decodes the rows', True)]


# ---- DropletTrack.data: time column + records -----------------------------------------------------------------------------------
KEY_TR_DATA = f"{TR}:DropletTrack.data"


class RowStore(Sym):
    def __init__(self, n, dtype):
        self.writes = []
        self.n, self.dtype = n, dtype
        super().__init__("np.empty(n, dtype)", setitem=lambda run, i, v: self.writes.append((i, v)), length=n)


_np_empty_prev = models.EXTERNALS.get("numpy.empty")


@models.external("numpy.empty")
def _np_empty(engine, run, a, k):
    if "track_data" in run.ghost:
        st = RowStore(a[0], k.get("dtype", a[1] if len(a) > 1 else None))
        run.ghost["track_data"]["store"] = st
        return st
    if _np_empty_prev is None:
        raise Undecided("np.empty outside the DropletTrack.data contract")
    return _np_empty_prev(engine, run, a, k)


@loop(KEY_TR_DATA, 0)
class TrackDataLoop(_BodyOnce):
    def before_body(self, run, env, i, seq):
        run.ghost["track_data"]["store"].writes.clear()

    def after_body(self, run, env, i, seq):
        g = run.ghost["track_data"]
        w = g["store"].writes
        ok = len(w) == 1
        run.oblige("row i of the array is written exactly once per step", z3.BoolVal(ok), kind="ensures", assume_after=False)
        if not ok:
            return
        idx, val = w[0]
        good = isinstance(val, tuple) and len(val) == 2 and isinstance(val[1], RowFields)
        run.oblige("row i is (time of entry i, all fields of droplet i in dtype order): the time column is prepended, nothing else changes",
                   z3.And(to_z3(idx) == i, to_real(val[0]) == z3.Select(g["times"].elems, i), val[1].term == ROW_OF(i)) if good else z3.BoolVal(False),
                   kind="ensures", assume_after=False)


@register
class TrackData(Contract):
    key = KEY_TR_DATA
    modular = False

    def cases(self):
        return [dict(empty=False), dict(empty=True)]

    def setup(self, run, case):
        from .collections import sym_real_list
        mem, n = sym_members(run, "droplets")
        run.assume(n == 0 if case["empty"] else n >= 1)
        times = sym_real_list(run, "track_times")
        run.assume(to_z3(times.length) == n)
        drops = H.SListObj(run, None, n, z3.K(I, z3.IntVal(0)), None, tag="droplets")
        drops.at = mem.at
        drops.sym_iter = lambda run2: mem
        drops.raw_getitem = lambda run2, idx: mem.at(idx if not (const_of(idx) is not None and const_of(idx) < 0) else n + int(const_of(idx)))
        me = SObj(source.get_class(TR, "DropletTrack"), {"droplets": drops, "times": times})
        run.ghost["track_data"] = dict(times=times)
        self.ctx = (run, mem, n, times)
        return dict(self=me)

    def _mixed(self):
        """members of more than one class, or of one class but with different data layouts (numbers of amplitudes): rows of ONE dtype cannot hold them"""
        run, mem, n, times = self.ctx
        i, j = z3.Ints("gi gj")
        return z3.Exists([i, j], z3.And(i >= 0, i < n, j >= 0, j < n, z3.Or(CLS_OF(i) != CLS_OF(j), DTYPE_OF(i) != DTYPE_OF(j))))

    def raises(self, a, exc, case):
        return [(f"DropletTrack.data raises only TypeError, and only for a track mixing droplet classes or data layouts (raised {exc.cls_name})",
                 z3.And(z3.BoolVal(exc.cls_name == "TypeError"), self._mixed()))]

    def post(self, a, ret, case):
        run, mem, n, times = self.ctx
        if case["empty"]:
            return [("an empty track has no data array", ret is None)]
        st = run.ghost["track_data"].get("store")
        out = [("a track mixing droplet classes or data layouts is refused (its single class tag / the dtype of its first member could not describe every row)", z3.Not(self._mixed())),
               ("the array has one row per entry", z3.And(z3.BoolVal(st is not None and ret is st), to_z3(st.n) == n) if st is not None else False)]
        if st is not None:
            dt = st.dtype
            out.append(("the dtype is the droplets' dtype with a leading float64 column `time`",
                        isinstance(dt, list) and len(dt) == 2 and dt[0] == ("time", "f8") and isinstance(dt[1], Descr)))
        return out


@models.external("numpy.result_type", "numpy.promote_types", "numpy.min_scalar_type")
def np_result_type(engine, run, a, k):
    """the dtype numpy derives from VALUES (or from other dtypes): an opaque dtype - in particular it is not known to be float64, so a
    time column typed this way fails the `leading float64 column` clause (integer time stamps would make it an integer column)"""
    run.trust("numpy.result_type / promote_types yield a dtype that depends on the values (opaque)")
    return SOpaque("dtype derived from values")
