"""C14 -- tracking during a simulation equals analysing the stored fields afterwards."""
from contracts import io, trackers as tk, collections as co, parallel as pl
from pyvc.bounded import Bounded

LEVEL = "proof"
LEVEL_TEXT = ("With locate_droplets, get_length_scale and extract_field as uninterpreted (deterministic) functions, the trackers are verified "
              "completely: DropletTracker.__init__ stores every setting under its own name; handle() extracts the field with the tracker's "
              "source, calls locate_droplets with exactly {threshold, refine, refine_args, modes=perturbation_modes, minimal_radius} set to "
              "the stored settings and nothing else, and appends the result with the frame's time (also t == 0) and default copy; finalize "
              "writes the recorded time course iff a filename is set. LengthScaleTracker.handle records, for ANY exception class the "
              "analysis may raise, NaN, otherwise exactly the returned value, keeps times/length_scales aligned and never raises. "
              "EmulsionTimeCourse.append pairs member and time (C20). The offline side is under contract too: EmulsionTimeCourse.from_storage(storage, refine=r, **options) builds, for every worker count, "
              "[locate_droplets(frame, refine=r, **options) for frame in storage] paired with storage.times. Equality with the tracker then follows "
              "because both sides apply the same function to the same field with the same keyword names (threshold, refine, refine_args, modes, "
              "minimal_radius); real solver runs are a bounded stand-in.")
LEVEL_NOTE = ("A-FP; determinism of locate_droplets / get_length_scale; A-PDE: extract_field, TrackerBase.__init__/finalize do not interfere; "
              "Executor.map contract for the parallel branch of from_storage (C15); that a stored frame equals the field the tracker saw is py-pde's storage contract (bounded); file round trip is C08")
from pyvc.contract import register as _register
_register(io.KeyOrderPlain)
_register(io.KeyOrderLen)
CONTRACTS = [c.ident for c in (tk.TrackerInit(), tk.TrackerHandle(), tk.TrackerFinalize(), tk.LengthScaleHandle(), tk.LengthScaleFinalize(), co.ETCAppend(), pl.FromStorageBranches(),
                               io.ETCToFile(), io.ETCFromFile(), io.EmWriteDataset(), io.EmFromDataset())]
LEMMAS = [io.KeyOrderPlain.name, io.KeyOrderLen.name]


class TrackerVsOffline(Bounded):
    name = "tracker-vs-offline-analysis"
    bound = ("direct driving with 12 (quick) / 60 (thorough) synthetic field sequences (1-d/2-d, incl. frames without droplets, times "
             "including 0 at a non-initial frame, negative times and non-monotonic / repeated times of a re-used tracker) x 4 setting bundles; 2 (quick) / 6 (thorough) real Cahn-Hilliard-type "
             "solver runs; file written by finalize() read back; LengthScaleTracker on all 3 methods incl. failing analyses")

    def run(self, tier, seed):
        import math
        import os
        import tempfile
        import numpy as np
        import droplets
        import pde
        from droplets.trackers import DropletTracker, LengthScaleTracker
        rng = np.random.default_rng(seed + 5)
        ev, viol, distinct = 0, {}, set()
        bundles = [dict(), dict(threshold="extrema", minimal_radius=1.0), dict(refine=True, refine_args=dict(tolerance=1e-6)),
                   dict(perturbation_modes=2, minimal_radius=0.7), dict(threshold="otsu", refine=True, perturbation_modes=2)]

        def offline_kwargs(b):
            kw = {k: v for k, v in b.items() if k != "perturbation_modes"}
            if "perturbation_modes" in b:
                kw["modes"] = b["perturbation_modes"]
            return kw
        def same(x, y):
            try:
                return bool(x == y) and [[type(d) for d in e] for e in x] == [[type(d) for d in e] for e in y]
            except Exception:   # noqa: BLE001
                return False
        for t in range(12 if tier == "quick" else 60):
            dim = 1 + t % 2
            grid = pde.UnitGrid([24] * dim, periodic=bool(t % 3 == 0))
            nf = int(rng.integers(1, 5))
            times = sorted(set(np.round(rng.uniform(-3, 3, nf), 1).tolist()))
            if t % 2 and len(times) > 1:
                times[1] = 0.0
                times = sorted(set(times))
            if t % 4 == 2:
                # a tracker that is re-used for a second run: the times start again (non-monotonic, repeated)
                times = [0, 1, 2, 0, 1][: max(4, nf)]
            fields = []
            for f in range(len(times)):
                n = int(rng.integers(0, 3))
                em = droplets.Emulsion([droplets.DiffuseDroplet(rng.uniform(4, 20, dim), rng.uniform(2, 4), 1.0) for _ in range(n)])
                em.remove_overlapping()
                fields.append(em.get_phasefield(grid))
            for bi, b in enumerate(bundles):
                if dim == 1 and b.get("perturbation_modes"):
                    continue
                ev += 1
                distinct.add((t, bi))
                with tempfile.TemporaryDirectory(dir=os.environ.get("TMPDIR")) as tmp:
                    path = os.path.join(tmp, "tc.hdf5")
                    tr = DropletTracker(1, filename=path, **b)
                    storage = pde.MemoryStorage()
                    storage.start_writing(fields[0])
                    try:
                        for tt, f in zip(times, fields):
                            tr.handle(f, tt)
                            storage.append(f, tt)
                        tr.finalize()
                        off = droplets.EmulsionTimeCourse.from_storage(storage, **offline_kwargs(b))
                        back = droplets.EmulsionTimeCourse.from_file(path)
                    except Exception as e:   # noqa: BLE001
                        viol.setdefault("raise", dict(signature=f"tracker-raised:{type(e).__name__}", what=f"tracking raised {type(e).__name__}: {e}",
                                                      inputs=dict(t=t, bundle=bi)))
                        continue
                    def same(x, y):
                        try:
                            return bool(x == y) and [[type(d) for d in e] for e in x] == [[type(d) for d in e] for e in y]
                        except Exception:   # noqa: BLE001  (e.g. droplets of different classes cannot even be compared)
                            return False
                    if not (same(tr.data, off) and list(tr.data.times) == list(times)):
                        viol.setdefault(("offline", bi), dict(signature=f"tracker-vs-offline:bundle{bi}",
                                                              what="recorded time course differs from the offline analysis with the same settings",
                                                              inputs=dict(t=t, bundle=repr(b), times=times),
                                                              native=dict(tracker_times=list(tr.data.times), offline_times=list(off.times))))
                    if not same(back, tr.data):
                        viol.setdefault("file", dict(signature="tracker-file", what="file written by finalize() does not read back equal",
                                                     inputs=dict(t=t, bundle=repr(b))))
            # length scale tracker
            for method in ("structure_factor_mean", "structure_factor_maximum", "droplet_detection"):
                ev += 1
                distinct.add((t, method))
                lt = LengthScaleTracker(1, method=method)
                try:
                    for tt, f in zip(times, fields):
                        lt.handle(f, tt)
                except Exception as e:   # noqa: BLE001
                    viol.setdefault("ls-raise", dict(signature=f"lengthscale-raised:{type(e).__name__}",
                                                     what=f"LengthScaleTracker.handle raised {type(e).__name__}: {e}", inputs=dict(t=t, method=method)))
                    continue
                exp = []
                for f in fields:
                    try:
                        exp.append(float(droplets.get_length_scale(f, method=method)))
                    except Exception:   # noqa: BLE001
                        exp.append(math.nan)
                # the file written at the end holds exactly the records, not-a-number entries included
                import json
                import os
                import tempfile
                fd, jpath = tempfile.mkstemp(suffix=".json")
                os.close(fd)
                try:
                    lt.filename = jpath
                    lt.finalize()
                    with open(jpath) as fp_:
                        back_ = json.load(fp_)
                    if not (np.array_equal(np.array(back_["times"], float), np.array(times, float)) and
                            np.array_equal(np.array(back_["length_scales"], float), np.array([float(x) for x in lt.length_scales]), equal_nan=True)):
                        viol.setdefault("ls-file", dict(signature="lengthscale-file", what="file written by LengthScaleTracker.finalize() does not hold the recorded data",
                                                        inputs=dict(t=t, method=method)))
                except Exception as e:   # noqa: BLE001
                    viol.setdefault("ls-fin", dict(signature=f"lengthscale-finalize-raised:{type(e).__name__}",
                                                   what=f"LengthScaleTracker.finalize raised {type(e).__name__}: {e}", inputs=dict(t=t, method=method)))
                finally:
                    os.remove(jpath)
                got = [float(x) for x in lt.length_scales]
                if list(lt.times) != list(times) or not np.array_equal(np.array(got), np.array(exp), equal_nan=True):
                    viol.setdefault(("ls", method), dict(signature=f"lengthscale-values:{method}",
                                                         what="recorded length scales differ from the per-frame analysis",
                                                         inputs=dict(t=t, method=method), native=dict(got=got, expected=exp)))
        # real solver runs
        for r in range(2 if tier == "quick" else 6):
            ev += 1
            distinct.add(("solver", r))
            grid = pde.UnitGrid([32, 32] if r % 2 == 0 else [48], periodic=True)
            field = pde.ScalarField.random_uniform(grid, -1, 1, rng=np.random.default_rng(seed + r))
            eq = pde.PDE({"c": "laplace(c**3 - c - laplace(c))"})
            b = dict(bundles[[0, 2][r % 2]])
            b["threshold"] = 0.0
            tr = DropletTracker(1.0 if r % 2 else 0.5, **b)
            storage = pde.MemoryStorage()
            try:
                eq.solve(field, t_range=(-1, 2) if r % 2 else 2, dt=1e-2, tracker=[tr, storage.tracker(1.0 if r % 2 else 0.5)])
                off = droplets.EmulsionTimeCourse.from_storage(storage, **offline_kwargs(b))
            except Exception as e:   # noqa: BLE001
                viol.setdefault("solver-raise", dict(signature=f"solver-run-raised:{type(e).__name__}", what=f"solver run raised {type(e).__name__}: {e}",
                                                     inputs=dict(run=r)))
                continue
            if not same(tr.data, off):
                viol.setdefault("solver", dict(signature="solver-run-vs-offline", what="tracker during a solver run differs from offline analysis",
                                               inputs=dict(run=r), native=dict(t1=list(tr.data.times), t2=list(off.times))))
        return dict(evaluations=ev, distinct=len(distinct), violations=list(viol.values()))


BOUNDED = [TrackerVsOffline()]
