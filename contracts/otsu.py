"""C18: threshold_otsu under contract.

Arrays are functions of an index (`VecFn`: length + at(k)); slicing / reversal / element-wise arithmetic are evaluated symbolically, so
every clause is checked at an arbitrary (Skolem) index.  ASSUMED contracts of numpy: histogram(data, bins=n) -> (counts c_0..c_{n-1} >= 0,
edges e_0 < ... < e_n) with non-empty first and last bin for non-constant data; cumsum(a)_k = a_0 + ... + a_k (prefix sum, as the
recursively defined uninterpreted function PS_a; its monotonicity for non-negative summands is a trusted inductive consequence);
argmax(v) is an index of a maximal entry."""
from __future__ import annotations

import ast

import z3

from pyvc import models, ops
from pyvc.contract import Contract, Lemma, register
from pyvc.engine import _MISSING
from pyvc.values import SNative, SOpaque, Undecided, const_of, is_num, to_real, to_z3

IA = "droplets.image_analysis"
I, Rl = z3.IntSort(), z3.RealSort()
CNT = z3.Function("hist_count", I, Rl)
EDGE = z3.Function("hist_edge", I, Rl)
_PS = {}


def prefix_sum(tag, fn):
    """PS_tag(k) = fn(0) + ... + fn(k) as an uninterpreted function with its recursive definition"""
    if tag not in _PS:
        _PS[tag] = z3.Function(f"prefix_sum[{tag}]", I, Rl)
    return _PS[tag]


class VecFn:
    def __init__(self, length, at, tag):
        self.length, self.at, self.tag = length, at, tag

    def sym_len(self, run):
        return self.length

    def sym_getattr(self, run, attr):
        if attr == "flat":
            return self
        return _MISSING

    def sym_getitem(self, run, idx):
        L = to_z3(self.length)
        if isinstance(idx, slice):
            lo, hi, st = idx.start, idx.stop, idx.step
            if st is not None and const_of(st) == -1 and lo is None and hi is None:
                return VecFn(L, lambda k, s=self: s.at(to_z3(s.length) - 1 - to_z3(k)), f"rev({self.tag})")
            if st is None and hi is None and lo is not None and const_of(lo) is not None and const_of(lo) >= 0:
                c = int(const_of(lo))
                return VecFn(L - c, lambda k, s=self, c=c: s.at(to_z3(k) + c), f"{self.tag}[{c}:]")
            if st is None and lo is None and hi is not None and const_of(hi) is not None and const_of(hi) < 0:
                c = int(const_of(hi))
                return VecFn(L + c, lambda k, s=self: s.at(to_z3(k)), f"{self.tag}[:{c}]")
            raise Undecided(f"slice {idx!r} of an array")
        if isinstance(idx, ArgMax):
            return self.at(idx.term)
        k = to_z3(idx)
        run.oblige(f"index in range of {self.tag}", z3.And(k >= 0, k < L), kind="implicit")
        return self.at(k)

    def sym_binop(self, run, op, other, reflected):
        if isinstance(other, VecFn):
            a, b = (other, self) if reflected else (self, other)
            run.oblige("element-wise operation on arrays of equal length", to_z3(a.length) == to_z3(b.length), kind="implicit")
            return VecFn(a.length, lambda k: _elem(run, op, a.at(k), b.at(k)), f"({a.tag} {type(op).__name__} {b.tag})")
        if is_num(other):
            if reflected:
                return VecFn(self.length, lambda k: _elem(run, op, other, self.at(k)), f"(c {type(op).__name__} {self.tag})")
            return VecFn(self.length, lambda k: _elem(run, op, self.at(k), other), f"({self.tag} {type(op).__name__} c)")
        return NotImplemented


def _elem(run, op, x, y):
    if isinstance(op, ast.Div) and const_of(y) is not None and const_of(y) != 0:
        from fractions import Fraction
        return to_real(x) * z3.RealVal(Fraction(1) / Fraction(const_of(y)))
    if isinstance(op, ast.Div):
        # numpy division: a zero divisor gives nan / inf, not an exception; the contract's precondition makes the divisors positive
        xr, yr = to_real(x), to_real(y)
        q = z3.FreshReal("q")
        run.define(z3.Implies(yr != 0, q * yr == xr), "element-wise division")
        run.ghost.setdefault("otsu_divisors", []).append(yr)
        return q
    if isinstance(op, ast.Pow) and const_of(y) == 2:
        return to_real(x) * to_real(x)
    return ops.binop(run, op, x, y)


class ArgMax:
    def __init__(self, term):
        self.term = term


def _hist(engine, run, a, k):
    g = run.ghost.get("otsu")
    if g is None:
        raise Undecided("np.histogram outside the Otsu contract")
    n = k.get("bins", a[1] if len(a) > 1 else 10)
    g["hist_calls"].append(dict(data=a[0], bins=n, extra=sorted(set(k) - {"bins"})))
    run.trust("ASSUMED (numpy.histogram): counts >= 0, edges strictly increasing; for non-constant data the first and the last bin are non-empty")
    return (VecFn(to_z3(n), lambda j: CNT(to_z3(j)), "counts"), VecFn(to_z3(n) + 1, lambda j: EDGE(to_z3(j)), "edges"))


models.EXTERNALS["numpy.histogram"] = _hist


def _cumsum(engine, run, a, k):
    v = a[0]
    if not isinstance(v, VecFn) or k or len(a) != 1:
        raise Undecided("np.cumsum of something else than a 1-d array")
    ps = prefix_sum(v.tag, v.at)
    j = z3.Int("cs_j")
    run.define(z3.And(ps(0) == to_real(v.at(z3.IntVal(0))), z3.ForAll([j], z3.Implies(j >= 1, ps(j) == ps(j - 1) + to_real(v.at(j))))),
               "cumsum: prefix sums (recursive definition)")
    run.ghost.setdefault("cumsums", {})[v.tag] = (v, ps)
    run.trust("ASSUMED (numpy.cumsum): entry k is a_0 + ... + a_k")
    return VecFn(v.length, lambda kk: ps(to_z3(kk)), f"cumsum({v.tag})")


models.EXTERNALS["numpy.cumsum"] = _cumsum
_prev_argmax = models.EXTERNALS.get("numpy.argmax")


def _argmax(engine, run, a, k):
    v = a[0]
    if isinstance(v, VecFn):
        L = to_z3(v.length)
        run.oblige("argmax of a non-empty array", L >= 1, kind="implicit")
        idx = z3.Int("otsu_idx")
        j = z3.Int("am_j")
        run.define(z3.And(idx >= 0, idx < L, z3.ForAll([j], z3.Implies(z3.And(j >= 0, j < L), to_real(v.at(idx)) >= to_real(v.at(j))))),
                   "argmax: index of a maximal entry")
        run.trust("ASSUMED (numpy.argmax): an index of a maximal entry (NaN-free input)")
        run.ghost["otsu"]["argmax_of"] = v
        return ArgMax(idx)
    if _prev_argmax is None:
        raise Undecided("np.argmax")
    return _prev_argmax(engine, run, a, k)


models.EXTERNALS["numpy.argmax"] = _argmax


@register
class ThresholdOtsu(Contract):
    key = f"{IA}:threshold_otsu"
    variant = "definition"
    modular = False

    def cases(self):
        return [dict(nbins="default"), dict(nbins="given")]

    def setup(self, run, case):
        data = SOpaque("data")
        flat = SOpaque("data.flat")
        data.attrs["flat"] = flat

        class D:
            def sym_getattr(self_inner, run2, attr):
                if attr == "flat":
                    return flat
                if attr == "size":
                    sz = z3.Int("data_size")
                    run2.define(sz >= 2, "non-constant data has at least two entries")
                    return sz
                return _MISSING
        d = D()
        n = z3.IntVal(256) if case["nbins"] == "default" else run.input_int("nbins")
        run.assume(n >= 2)
        j, j2 = z3.Ints("hj hj2")
        # histogram facts; precondition: the data is not constant
        run.assume(z3.ForAll([j], CNT(j) >= 0))
        run.assume(z3.And(CNT(0) >= 1, CNT(n - 1) >= 1))
        run.assume(z3.ForAll([j], EDGE(j) < EDGE(j + 1)))
        run.ghost["otsu"] = dict(hist_calls=[], flat=flat, n=n)
        self.ctx = (run, n, flat)
        a = dict(data=d)
        if case["nbins"] == "given":
            a["nbins"] = n
        return a

    def post(self, a, ret, case):
        run, n, flat = self.ctx
        g = run.ghost["otsu"]
        out = [("the histogram of all values of the image with the requested number of bins (default 256) is taken, once",
                len(g["hist_calls"]) == 1 and g["hist_calls"][0]["data"] is flat and not g["hist_calls"][0]["extra"] and
                z3.is_true(z3.simplify(to_z3(g["hist_calls"][0]["bins"]) == n)))]
        v = g.get("argmax_of")
        if v is None or not z3.is_expr(ret):
            return out + [("the result is a bin centre chosen by maximising over the bins", False)]
        idx = z3.Int("otsu_idx")
        center = lambda k: (EDGE(k + 1) + EDGE(k)) / 2     # noqa: E731
        from pyvc.engine import Obligation
        ob0 = Obligation("the result is the CENTRE of the chosen bin", "ensures", [EDGE(idx) < EDGE(idx + 1)], to_real(ret) == center(idx), run.cur_func, run.cur_line,
                         tuple(run.decisions[: run.pos]), dict(run.inputs), {})
        ob0.core = list(ob0.assumptions)
        run.obligations.append(ob0)
        out.append(("the choice runs over the n-1 admissible splits k = 0..n-2 (classes {0..k} and {k+1..n-1})", to_z3(v.length) == n - 1))
        # the defining between-class variance.  First: the code's four cumulative sums are taken of the right summands (checked at a Skolem
        # index): counts, counts * centres, and the same two reversed.  Then: entry k of the maximised array equals the definition written with
        # these prefix sums.  (prefix sum of the reversed array at n-2-k == sum over the bins k+1..n-1: lemma below.)
        cs = run.ghost.get("cumsums", {})
        matched = self._match(run, cs)
        need = ("counts", "counts*centres", "rev(counts)", "rev(counts*centres)")
        out.append(("four cumulative sums are formed: of the counts, of counts * bin centres, and of both in reversed order", all(t in matched for t in need)))
        if not all(t in matched for t in need):
            return out
        PSc, PSx, PRc, PRx = (matched[t] for t in need)
        k = z3.Int("sk_split")
        w1, w2 = PSc(k), PRc(n - 2 - k)
        m1, m2 = z3.Real("spec_m1"), z3.Real("spec_m2")
        spec = w1 * w2 * (m1 - m2) * (m1 - m2)
        code = to_real(v.at(k))
        run.trust("prefix sums of non-negative summands are non-decreasing: PS(k) >= PS(0) (inductive consequence of the recursive definition, trusted)")
        facts = [f for f in run.defs if not _has_quantifier(f)] + [z3.Implies(k >= 0, PSc(k) >= CNT(0)), z3.Implies(n - 2 - k >= 0, PRc(n - 2 - k) >= CNT(n - 1)),
                                                                  CNT(0) >= 1, CNT(n - 1) >= 1, n >= 2]
        goal = z3.Implies(z3.And(k >= 0, k <= n - 2, m1 * w1 == PSx(k), m2 * w2 == PRx(n - 2 - k)), code == spec)
        ob = Obligation("entry k of the maximised array is the between-class variance of split k: W1(k) * W2(k+1) * (M1(k) - M2(k+1))**2 with W1 / M1 the "
                        "weight / mean of the bins 0..k and W2 / M2 those of the bins k+1..n-1", "ensures", facts, goal, run.cur_func, run.cur_line,
                        tuple(run.decisions[: run.pos]), dict(run.inputs), {})
        ob.core = facts
        run.obligations.append(ob)
        return out

    def _match(self, run, cs):
        """which cumulative sum is which: decided by comparing the summand at a Skolem index with the four expected summands"""
        n = self.ctx[1]
        center = lambda kk: (EDGE(kk + 1) + EDGE(kk)) / 2     # noqa: E731
        want = {"counts": lambda j: CNT(j), "counts*centres": lambda j: CNT(j) * center(j),
                "rev(counts)": lambda j: CNT(n - 1 - j), "rev(counts*centres)": lambda j: CNT(n - 1 - j) * center(n - 1 - j)}
        j = z3.Int("sf_j")
        matched = {}
        for tag, (v, ps) in cs.items():
            for stag, fn in want.items():
                if stag in matched:
                    continue
                term = to_real(v.at(j))
                s = z3.Solver()
                s.set("timeout", 3000)
                for f_ in run.defs:
                    if not _has_quantifier(f_):
                        s.add(f_)
                s.add(n >= 2, j >= 0, j < n, term != fn(j))
                if s.check() == z3.unsat and z3.is_true(z3.simplify(to_z3(v.length) == n)):
                    matched[stag] = ps
                    break
        return matched


def _has_quantifier(f):
    stack, seen = [f], set()
    while stack:
        x = stack.pop()
        if x.get_id() in seen:
            continue
        seen.add(x.get_id())
        if z3.is_quantifier(x):
            return True
        stack.extend(x.children())
    return False


@register
class SuffixSumLemma(Lemma):
    """cumsum(a[::-1])[::-1][k] == a_k + ... + a_{n-1}: base case and induction step (the induction principle itself is trusted)"""
    name = "reversed-cumsum-of-reversed-is-the-suffix-sum"

    def obligations(self):
        A = z3.Function("lem_a", I, Rl)
        PR = z3.Function("lem_prefix_of_reversed", I, Rl)      # PR(j) = a_{n-1} + ... + a_{n-1-j}
        SS = z3.Function("lem_suffix_sum", I, Rl)              # SS(k) = a_k + ... + a_{n-1}
        n, k = z3.Ints("n k")
        # the recursive definitions, instantiated where the two obligations need them
        base = [n >= 1, PR(0) == A(n - 1), SS(n - 1) == A(n - 1)]
        yield ("base: entry n-1", base, PR(n - 1 - (n - 1)) == SS(n - 1))
        step = [n >= 1, k >= 0, k < n - 1, PR(n - 1 - k) == PR(n - 1 - k - 1) + A(n - 1 - (n - 1 - k)),      # definition of PR at j = n-1-k >= 1
                SS(k) == A(k) + SS(k + 1),                                                                      # definition of SS at k < n-1
                PR(n - 1 - (k + 1)) == SS(k + 1)]                                                               # induction hypothesis
        yield ("step: if it holds at k+1 it holds at k", step, PR(n - 1 - k) == SS(k))
