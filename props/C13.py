"""C13 -- a perturbed droplet's volume, surface, curvature and outline match its shape."""
from contracts import perturbed as pt, droplets as dr, lemmas
from pyvc.bounded import ContractSampling

LEVEL = "proof"
LEVEL_TEXT = ("Every series loop (interface distance, curvature, derivative, quadratic length) of the three perturbed classes is cut by an "
              "inductive invariant 'accumulator == partial sum of the documented series', so distance, linearised curvature, interface "
              "positions, triangulation vertices, the 2-D area/volume setter, the quadrature integrand of the 2-D surface and the dblquad "
              "integrand/limits of the 3-D volume are proved equal to their spec for every mode count, amplitude vector, radius, centre and "
              "direction (no bound). The harmonics helpers and the k<->(l,m) indexing are verified (NIA). Quadrature accuracy and the "
              "first-order claims themselves rest on trusted geometry and are only sampled.")
LEVEL_NOTE = ("A-FP; spec mathematics trusted: linearised mean curvature H = 1/R + (1/R) sum a_k (l^2+l-2)/2 Y_k (2-D: 1/(R(1-sum (n^2-1)...))), "
              "2-D area pi R^2 (1 + sum a^2/2), first-order 3-D volume = sphere volume, definition of the real harmonics from scipy's sph_harm_y "
              "(uninterpreted); assumed contracts: iterate_in_pairs (generator), number_array, dblquad argument convention, linspace, numpy "
              "element-wise lifting; quadrature error not bounded by proof")
CONTRACTS = [c.ident for c in (
    pt.SphericalIndexLM(), pt.SphericalIndexK(), pt.SphericalIndexCount(), pt.HarmonicReal(), pt.HarmonicRealK(),
    pt.HarmonicSymmetric(), pt.Distance2D(), pt.Curvature2D(), pt.SurfaceApprox2D(), pt.Volume2D(), pt.VolumeSetter2D(),
    pt.SurfaceArea2D(), pt.Distance3D(), pt.Curvature3D(), pt.DistanceAxi(), pt.CurvatureAxi(), pt.VolumeApprox3D(),
    pt.VolumeApproxAxi(), pt.Volume3D(), pt.Position2D(), pt.Position3D(), pt.PositionAxi(), pt.PositionSpherical2(),
    pt.PositionSpherical3(), pt.Triangulation())]
LEMMAS = ["isqrt-unique-and-mode-index-bijection"]
BOUNDED = [ContractSampling("perturbed-contracts-sampled", CONTRACTS,
                            "each method on 10 (quick) / 150 (thorough) seeded droplets: 0-8 modes incl. odd counts and zero amplitudes, radii 0.5-7")]
