"""C03: Emulsion.get_phasefield - cell-wise clip(sum of the droplets' fields, 0, 1); empty emulsion -> zero field."""
from __future__ import annotations

import z3

from pyvc import models
from pyvc.contract import Contract, Lemma, LOOPS, register
from pyvc.engine import LoopSpec, _MISSING
from pyvc.values import SCell, SNative, SOpaque, SSeq, Undecided, const_of, to_real, to_z3

from .gridmodel import SField
from .io import Sym

EM = "droplets.emulsions"
I, Rl = z3.IntSort(), z3.RealSort()
KEY = f"{EM}:Emulsion.get_phasefield"
PF = z3.Function("field_of_droplet_at_cell", I, Rl)          # value of droplet k's own phase field at the Skolem cell (contract: C03 render)
PSF = z3.Function("partial_sum_of_fields_at_cell", I, Rl)    # PF(0) + ... + PF(i)


def psf_facts(at):
    return [PSF(0) == PF(0)] + [z3.Implies(j >= 1, PSF(j) == PSF(j - 1) + PF(j)) for j in at]


@models.external("numpy.clip")
def _np_clip(engine, run, a, k):
    x, lo, hi = a[0], a[1], a[2]
    out = k.get("out")
    if not isinstance(x, SCell):
        raise Undecided("np.clip of something else than a cell-wise array")
    v, l_, h_ = to_real(x.v), to_real(lo), to_real(hi)
    c = z3.If(v < l_, l_, z3.If(v > h_, h_, v))
    run.trust("numpy: np.clip(x, lo, hi) limits every entry to [lo, hi]; with out=x the array is changed in place")
    run.ghost.setdefault("clips", []).append(dict(x=x, lo=lo, hi=hi, out=out))
    if out is not None:
        if not isinstance(out, SCell):
            raise Undecided("np.clip(out=...) into something else than a cell-wise array")
        out.v = c
        return out
    return SCell(c, x.space)


def _field_havoc(self, run, name):
    return self            # the loop spec havocs the cell value (the field object itself is the same before and after)


SField.sym_havoc = _field_havoc


class SumLoop(LoopSpec):
    force = True

    def havoc(self, run, env):
        res = env["result"]
        if isinstance(res, SField) and isinstance(res.data, SCell):
            res.data.v = run.fresh_real("partial_field")

    def invariant(self, run, env, i, seq):
        for f in psf_facts([i, i + 1]):
            run.define(f, "partial sums of the droplets' fields (recursive definition)")
        res = env["result"]
        g = run.ghost["pf"]
        ok = isinstance(res, SField) and isinstance(res.data, SCell) and res is g.get("first_field")
        yield ("`result` is the field of the first droplet, accumulating the others in place", z3.BoolVal(bool(ok)))
        if ok:
            yield ("after i further droplets the cell holds the sum of the fields of droplets 0..i", to_real(res.data.v) == PSF(i))


LOOPS[(KEY, 0)] = SumLoop()


@register
class GetPhasefield(Contract):
    key = KEY
    modular = False

    def cases(self):
        return [dict(empty=True), dict(empty=False)]

    def setup(self, run, case):
        n = run.input_int("n_droplets")
        run.assume(n == 0 if case["empty"] else n >= 1)
        grid = SOpaque("grid")
        label = SOpaque("label")
        g = dict(calls=[], grid=grid, label=label)

        def mk(k):
            k = to_z3(k)

            def gpf(run2, a, kw):
                fld = SField(a[0] if a else kw.get("grid"), SCell(PF(k), "cells"), kw.get("label"))
                g["calls"].append((k, list(a), dict(kw), fld))
                if z3.is_true(z3.simplify(k == 0)):
                    g["first_field"] = fld
                return fld
            # a droplet's own field is NOT a function of its radius alone (a diffuse droplet of radius 0 still contributes up to 1/2 near its centre):
            # radius and field value are independent symbols, so no droplet may be skipped because of its size
            d = Sym(f"droplet[{k}]", term=k, methods={"get_phase_field": gpf},
                    attrs={"radius": z3.Function("radius_of_droplet", I, Rl)(k), "interface_width": z3.Function("width_of_droplet", I, Rl)(k),
                           "volume": z3.Function("volume_of_droplet", I, Rl)(k)})
            return d

        def getitem(run2, idx):
            if isinstance(idx, slice):
                if idx.stop is None and idx.step is None and const_of(idx.start) == 1:
                    return SSeq(n - 1, lambda i: mk(to_z3(i) + 1), "self[1:]", "list")
                raise Undecided("slice of the emulsion other than [1:]")
            run2.oblige("index into a non-empty emulsion", z3.And(to_z3(idx) >= 0, to_z3(idx) < n), kind="implicit")
            return mk(idx)
        me = Sym("emulsion", length=n, truth=(n > 0), getitem=getitem)
        run.ghost["pf"] = g
        self.ctx = (run, g, n, grid, label)
        return dict(self=me, grid=grid, label=label)

    def post(self, a, ret, case):
        run, g, n, grid, label = self.ctx
        if not isinstance(ret, SField):
            return [("returns a ScalarField", False)]
        out = [("the field lives on the given grid", ret.grid is grid)]
        if case["empty"]:
            out.append(("an empty emulsion gives the zero field", z3.And(z3.BoolVal(isinstance(ret.data, SCell) and not g["calls"]), to_real(ret.data.v) == 0)))
            return out
        for f in psf_facts([n - 1]):
            run.define(f, "partial sums")
        first = [c for c in g["calls"] if z3.is_true(z3.simplify(c[0] == 0))]
        out.append(("every droplet is rendered on the given grid; the label goes to the result",
                    len(first) == 1 and all(c[1] == [grid] or c[2].get("grid") is grid for c in g["calls"]) and first[0][2].get("label") is label))
        v = to_real(ret.data.v)
        s = PSF(n - 1)
        out.append(("every cell holds clip(sum over ALL droplets of their fields, 0, 1)", v == z3.If(s < 0, 0, z3.If(s > 1, 1, s))))
        cl = run.ghost.get("clips", [])
        out.append(("the sum is limited to [0, 1] once, in place", len(cl) == 1 and cl[0]["out"] is ret.data and const_of(cl[0]["lo"]) == 0 and const_of(cl[0]["hi"]) == 1))
        return out


@register
class SumOrderLemma(Lemma):
    """order independence: exchanging two neighbouring droplets leaves every partial sum after them unchanged (step of the permutation argument;
    every permutation is a product of neighbour transpositions - trusted)"""
    name = "sum-of-fields-independent-of-droplet-order"

    def obligations(self):
        a, b, s0 = z3.Reals("a b s0")
        yield ("s0 + a + b == s0 + b + a", [], (s0 + a) + b == (s0 + b) + a)
        x, y = z3.Reals("x y")
        clip = lambda t: z3.If(t < 0, 0, z3.If(t > 1, 1, t))    # noqa: E731
        yield ("clip is a function of the sum only", [x == y], clip(x) == clip(y))


from pyvc.bounded import Bounded   # noqa: E402


class EmulsionSum(Bounded):
    name = "emulsion-field-is-clipped-sum"
    bound = ("Emulsion.get_phasefield against clip(sum of the members' own get_phase_field, 0, 1), cell by cell, and against every rotation / the reversal "
             "of the member order: 40 (quick) / 400 (thorough) random emulsions of 0-5 droplets (spherical, diffuse incl. width 0 / unset, perturbed) "
             "on 1-3 d Cartesian (periodic / not), polar and cylindrical grids, including droplets of radius exactly 0, overlapping droplets (sum > 1) and "
             "droplets outside the grid")

    def run(self, tier, seed):
        import numpy as np
        import pde
        from droplets import Emulsion
        from droplets.droplets import DiffuseDroplet, PerturbedDroplet2D, SphericalDroplet
        rng = np.random.default_rng(seed + 303)
        ev, distinct, viol = 0, set(), {}
        for t in range(40 if tier == "quick" else 400):
            k = t % 5
            if k == 0:
                grid = pde.UnitGrid([int(rng.integers(4, 30))], periodic=bool(t % 2))
            elif k == 1:
                grid = pde.CartesianGrid([(-2.0, 6.0), (0.0, 5.0)], [16, 10], periodic=[bool(t % 2), False])
            elif k == 2:
                grid = pde.UnitGrid([6, 5, 4], periodic=True)
            elif k == 3:
                grid = pde.PolarSymGrid(5.0, 10)
            else:
                grid = pde.CylindricalSymGrid(4.0, (0.0, 8.0), [8, 16], periodic_z=False)
            dim = grid.dim
            ds = []
            for _ in range(int(rng.integers(0, 6))):
                if isinstance(grid, pde.PolarSymGrid):
                    pos = np.zeros(dim)
                elif isinstance(grid, pde.CylindricalSymGrid):
                    pos = np.array([0.0, 0.0, rng.uniform(-1, 9)])
                else:
                    cc = np.asarray(grid.cell_coords).reshape(-1, dim)
                    pos = np.array(cc[int(rng.integers(0, len(cc)))], dtype=float) + (rng.normal(size=dim) if rng.random() < 0.5 else 0.0)
                r = float(rng.choice([0.0, 0.0, 0.7, 2.0, 4.0]))
                kind = int(rng.integers(0, 4))
                if kind == 0:
                    ds.append(SphericalDroplet(pos, r))
                elif kind == 1:
                    ds.append(DiffuseDroplet(pos, r, [None, 0.0, 0.8][int(rng.integers(0, 3))]))
                elif kind == 2 and dim == 2 and not isinstance(grid, pde.PolarSymGrid):
                    ds.append(PerturbedDroplet2D(pos, r, 0.7, rng.uniform(-0.3, 0.3, 2)))
                else:
                    ds.append(DiffuseDroplet(pos, r, 1.2))
            ev += 1
            distinct.add((t, seed))
            inputs = dict(t=t, seed=seed, grid=repr(grid), droplets=[repr(d) for d in ds])
            try:
                got = Emulsion(ds).get_phasefield(grid).data
                if ds:
                    want = np.clip(sum(d.get_phase_field(grid).data.astype(float) for d in ds), 0, 1)
                else:
                    want = np.zeros(grid.shape)
                if got.shape != want.shape or not np.allclose(got, want, rtol=0, atol=1e-12):
                    viol.setdefault("sum", dict(signature="clipped-sum", what="the emulsion's field is not clip(sum of the members' fields, 0, 1) in some cell",
                                                inputs=inputs, native=dict(max_dev=float(np.max(np.abs(got - want))))))
                for perm in ([ds[::-1]] + [ds[j:] + ds[:j] for j in range(1, len(ds))]):
                    other = Emulsion(perm).get_phasefield(grid).data
                    if not np.allclose(got, other, rtol=0, atol=1e-12):
                        viol.setdefault("order", dict(signature="order", what="the emulsion's field depends on the order of its members", inputs=inputs))
            except Exception as e:   # noqa: BLE001
                viol.setdefault("raises", dict(signature=f"raises:{type(e).__name__}", what=f"get_phasefield raises {type(e).__name__}: {e}", inputs=inputs))
        return dict(evaluations=ev, distinct=len(distinct), violations=list(viol.values()))

    def replay(self, rec):
        r = self.run("quick" if rec["inputs"].get("t", 0) < 40 else "thorough", int(rec["inputs"].get("seed", 0)))
        return dict(violated=[v["signature"] for v in r["violations"]], observed=[v.get("native") for v in r["violations"]][:3])
