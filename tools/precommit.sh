#!/bin/sh
# precommit.sh: syntax-check every python file of the framework, regenerate and validate MANIFEST.json
cd "$(dirname "$0")/.." || exit 1
.venv/bin/python - <<'PY' || exit 1
import ast, glob, sys
bad = 0
for f in glob.glob("props/*.py") + glob.glob("contracts/*.py") + glob.glob("pyvc/*.py") + glob.glob("tools/*.py"):
    try:
        ast.parse(open(f).read(), f)
    except SyntaxError as e:
        print("SYNTAX", f, e); bad = 1
sys.exit(bad)
PY
.venv/bin/python tools/gen_manifest.py | tail -1
