#!/bin/bash
# mutate.sh <pid> <file-under-droplets> <python-regex> <replacement> : run the quick check of <pid> on a scratch copy of /repo/droplets
# in which the first match of the regex in the file is replaced (must match exactly once unless COUNT is set); prints the verdict.
PID="$1"; F="$2"; PAT="$3"; REP="$4"
HERE="$(cd "$(dirname "$0")/.." && pwd)"
W="$(mktemp -d /var/tmp/mut.XXXXXX)"; trap 'rm -rf "$W"' EXIT
cp -r /repo/droplets "$W/droplets"
python3 - "$W/droplets/$F" "$PAT" "$REP" <<'PY' || exit 9
import re, sys
p, pat, rep = sys.argv[1:4]
s = open(p).read()
n = len(re.findall(pat, s))
if n != 1:
    print(f"MUTATION pattern matches {n} times"); sys.exit(9)
open(p, "w").write(re.sub(pat, lambda m: rep, s, count=1))
PY
cd "$HERE" && PYDROPLETS_SRC="$W" NUMBA_CACHE_DIR="$W/numba" ./check "$PID" --tier quick --no-evidence > "$W/log" 2>&1; RC=$?
echo "mutant [$PAT -> $REP]: exit=$RC $(grep -c '^VIOLATION' "$W/log") violation line(s); $(grep -m1 '^  failed' "$W/log" | cut -c1-220)"
[ -n "$VERBOSE" ] && grep -E '^(VIOLATION|  failed|UNDECIDED|CHECKER)' "$W/log" | head -20
exit 0
