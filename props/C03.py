"""C03 -- a rendered phase field is a faithful, finite picture of the droplet."""
from contracts import render as rd, perturbed as pt, lemmas, phasefield as pf
from pyvc.bounded import ContractSampling

LEVEL = "proof"
LEVEL_TEXT = ("get_phase_field is verified for all five droplet classes, dims 1-3, unset/zero/positive interface width and arbitrary "
              "vmin/vmax at a Skolem cell of an abstract grid: field == vmin + (vmax-vmin)*profile with profile the indicator [delta<rho] "
              "or 1/2+1/2 tanh((rho-delta)/w), hence range, midpoint <=> inside, exact indicator for sharp droplets; rho is the proven "
              "series of C13 in the direction returned by polar_coordinates, whose contract (distance = |grid.difference_vector|, angle "
              "characterisation, DimensionError) is verified too; the binary image and the dimension-mismatch ValueError likewise. "
              "Monotonicity and roll equivariance are z3 lemmas over these contracts. Emulsion.get_phasefield is verified too (loop invariant: partial sum of the droplets' fields; every cell == clip(sum over all "
              "droplets, 0, 1), clipped once in place; empty emulsion -> zero field; order independence by the transposition lemma). The py-pde metric "
              "itself is only exercised by the bounded stand-in on real grids.")
LEVEL_NOTE = ("A-FP; A-PDE: grid.difference_vector(origin, cell_coords) is the (periodic) Cartesian vector to each cell centre, "
              "grid.transform round trip, typical_discretization > 0, ScalarField wraps its data (known dependency defect D1: "
              "CylindricalSymGrid with periodic z wraps y instead of z, excluded from the bounded runs); elementary-function facts for "
              "tanh (range, sign, monotone), arccos, arctan2, Pythagoras; numpy element-wise lifting, np.clip(out=); ScalarField `+=` adds cell-wise")
CONTRACTS = [c.ident for c in (rd.PolarCoordinates(), rd.GetPhaseField(), rd.BinaryImage(), rd.DimensionMismatch(),
                               pt.Distance2D(), pt.Distance3D(), pt.DistanceAxi(), pt.HarmonicRealK(), pt.HarmonicReal(),
                               pt.HarmonicSymmetric(), pt.SphericalIndexLM(), pf.GetPhasefield())]
LEMMAS = ["profile-non-increasing-in-distance", "periodic-wrap-is-roll-equivariant", "isqrt-unique-and-mode-index-bijection", "sum-of-fields-independent-of-droplet-order"]
BOUNDED = [ContractSampling("render-on-real-grids", [rd.GetPhaseField().ident, rd.DimensionMismatch().ident],
                            "every class x width kind on 4 (quick) / 40 (thorough) seeded droplets, each rendered on 2-4 real grids "
                            "(unit/Cartesian with mixed periodicity, polar, spherical, cylindrical), every cell checked"),
           pf.EmulsionSum()]
