"""Contracts for rendering droplets (C03): polar_coordinates, the _get_phase_field family, get_phase_field."""
from __future__ import annotations

import math

import z3

from pyvc import models, ops, source, spec as S
from pyvc.bounded import Bounded
from pyvc.contract import Contract, Lemma, register
from pyvc.engine import SymRaise
from pyvc.values import SArr, SCell, SExc, SMaybeNaN, SObj, SOpaque, Undecided, const_of, to_real, to_z3

from . import perturbed as pt
from .common import fnum, make_droplet, sym_droplet
from .gridmodel import SField, SGrid, arctan2_term

MOD = "droplets.droplets"
SPH = "droplets.tools.spherical"
SQRT = ops.ufun("sqrt_f")
COS, SIN = ops.ufun("cos_f"), ops.ufun("sin_f")


def angle_facts(dim, comps, dist, angles):
    """Spec of the angles of the difference vector `comps` (characterisation, not a formula):
    1-d: sign; 2-d: hyp*cos(phi) = d0, hyp*sin(phi) = d1; 3-d: additionally dist*cos(theta) = d2, theta in [0, pi]."""
    out = []
    if dim == 1:
        d0 = comps[0]
        out.append(("angle == sign(diff)", angles[0] == z3.If(d0 > 0, z3.RealVal(1), z3.If(d0 < 0, z3.RealVal(-1), z3.RealVal(0)))))
    elif dim == 2:
        ph = angles[0]
        out.append(("dist*cos(phi) == diff_x and dist*sin(phi) == diff_y", z3.And(dist * COS(ph) == comps[0], dist * SIN(ph) == comps[1])))
    elif dim == 3:
        th, ph = angles
        hyp = SQRT(comps[0] * comps[0] + comps[1] * comps[1])
        out.append(("dist*cos(theta) == diff_z and theta in [0, pi]", z3.And(dist * COS(th) == comps[2], th >= 0, th <= ops.PI())))
        out.append(("hyp*cos(phi) == diff_x and hyp*sin(phi) == diff_y  (hyp = |(diff_x, diff_y)|)",
                    z3.And(hyp * COS(ph) == comps[0], hyp * SIN(ph) == comps[1])))
    return out


@register
class PolarCoordinates(Contract):
    """polar_coordinates(grid, origin=, ret_angle=): distance (and angles) of every cell centre from `origin`,
    where the difference vector is the grid's (periodic) `difference_vector` -- assumed py-pde contract."""
    key = f"{SPH}:polar_coordinates"

    def cases(self):
        out = [dict(dim=d, ret_angle=r, origin="given") for d in (1, 2, 3) for r in (False, True)]
        out += [dict(dim=2, ret_angle=False, origin="none"), dict(dim=2, ret_angle=False, origin="wrong-dim"),
                dict(dim=4, ret_angle=True, origin="given")]
        return out

    def setup(self, run, case):
        grid = SGrid(run, case["dim"])
        a = dict(grid=grid, ret_angle=case["ret_angle"])
        if case["origin"] == "given":
            a["origin"] = SArr([run.input_real(f"origin{j}") for j in range(case["dim"])])
        elif case["origin"] == "wrong-dim":
            a["origin"] = SArr([run.input_real(f"origin{j}") for j in range(case["dim"] + 1)])
        self.run = run
        return a

    def post(self, a, ret, case):
        if case["origin"] == "wrong-dim":
            return [("origin of the wrong dimension must raise DimensionError", False)]
        if case["dim"] == 4 and case["ret_angle"]:
            return [("angles in more than 3 dimensions must raise NotImplementedError", False)]
        dv = self.run.ghost.get("dv")
        if dv is None:
            return [("the difference vectors come from grid.difference_vector(origin, cell_coords)", False)]
        out = []
        og = dv["origin"]
        if case["origin"] == "given":
            out.append(("the origin handed to the grid is the given origin",
                        isinstance(og, SArr) and len(og) == case["dim"] and all(z3.eq(to_real(x), to_real(y)) for x, y in
                                                                              zip(og.elems, a["origin"].elems))))
        else:
            out.append(("a missing origin means the coordinate origin",
                        isinstance(og, SArr) and all(const_of(x) == 0 for x in og.elems) and len(og) == case["dim"]))
        comps = dv["comps"]
        parts = ret if case["ret_angle"] else (ret,)
        if not (isinstance(parts, tuple) and all(isinstance(p, SCell) for p in parts) and
                len(parts) == (case["dim"] if case["ret_angle"] and case["dim"] > 1 else (2 if case["ret_angle"] else 1))):
            return out + [("returns dist (and dim-1 angle arrays; the sign in 1-d) per cell", False)]
        dist = to_real(parts[0].v)
        ss = sum((c * c for c in comps[1:]), comps[0] * comps[0])
        out.append(("dist >= 0 and dist^2 == |difference vector|^2", z3.And(dist >= 0, dist * dist == ss)))
        if case["ret_angle"]:
            out += angle_facts(case["dim"], comps, dist, [to_real(p.v) for p in parts[1:]])
        return out

    def raises(self, a, exc, case):
        if case["origin"] == "wrong-dim":
            return [("raises DimensionError", exc.cls_name == "DimensionError")]
        if case["dim"] == 4 and case["ret_angle"]:
            return [("raises NotImplementedError", exc.cls_name == "NotImplementedError")]
        return [(f"no exception escapes (raised {exc.cls_name})", False)]

    def apply(self, engine, run, fi, args, kwargs):
        grid = args[0]
        origin = kwargs.get("origin")
        ret_angle = kwargs.get("ret_angle", False)
        if not isinstance(grid, SGrid):
            raise Undecided("polar_coordinates on a non-modelled grid")
        dim = grid.dim
        if origin is not None:
            if isinstance(origin, SArr) and len(origin) != dim:
                raise SymRaise(SExc("DimensionError", ("Dimensions are not compatible",)))
        comps = [run.input_real(f"diff{j}") for j in range(dim)]
        ss = sum((c * c for c in comps[1:]), comps[0] * comps[0])
        dist = run.input_real("cell_dist")
        run.assume(z3.And(dist >= 0, dist * dist == ss))
        g = dict(comps=comps, dist=dist, angles=[], origin=origin)
        run.ghost["polar"] = g
        run.trust(f"contract:{self.key} (verified separately)")
        run.trust("A-PDE: grid.difference_vector(origin, cell_coords) is the (periodic) Cartesian vector from the origin to each cell centre")
        if not ret_angle:
            return SCell(dist, "cells")
        if dim > 3:
            raise SymRaise(SExc("NotImplementedError", ()))
        angles = [run.input_real(nm) for nm in (["sgn"] if dim == 1 else ["cell_phi"] if dim == 2 else ["cell_theta", "cell_phi"])]
        for nm, f in angle_facts(dim, comps, dist, angles):
            run.assume(f)
        g["angles"] = angles
        return tuple([SCell(dist, "cells")] + [SCell(x, "cells") for x in angles])

    def realise(self, case, model):
        return None


# ---------------------------------------------------------------------------
DROPLETS = [("SphericalDroplet", 1), ("SphericalDroplet", 2), ("SphericalDroplet", 3),
            ("DiffuseDroplet", 1), ("DiffuseDroplet", 2), ("DiffuseDroplet", 3),
            ("PerturbedDroplet2D", 2), ("PerturbedDroplet3D", 3), ("PerturbedDroplet3DAxisSym", 3)]
WIDTHS = ("unset", "zero", "positive")


def rho_spec(me, cls, polar):
    R = pt.radius_of(me)
    ang = polar.get("angles") or []
    need = {"PerturbedDroplet2D": 1, "PerturbedDroplet3D": 2, "PerturbedDroplet3DAxisSym": 1}.get(cls, 0)
    if len(ang) < need:
        return None        # the direction of the cell was never asked for: the shape cannot have been evaluated in it
    if cls == "PerturbedDroplet2D":
        return R * (1 + pt.PS2(pt.npairs(me), ang[0]))
    if cls == "PerturbedDroplet3D":
        return R * (1 + pt.PS3(pt.nmodes(me), ang[0], ang[1]))
    if cls == "PerturbedDroplet3DAxisSym":
        return R * (1 + pt.PSA(pt.nmodes(me), ang[0]))
    return R


def profile_clauses(p, delta, rho, w, sharp, boolean=False):
    """Clauses on the normalised field value p at the Skolem cell."""
    if boolean:
        return [("binary image: cell is set exactly when its centre is inside the interface", p == (delta < rho))]
    if sharp:
        return [("sharp droplet gives exactly the indicator of `cell centre inside the interface`",
                 p == z3.If(delta < rho, z3.RealVal(1), z3.RealVal(0)))]
    return [("value == 1/2 + 1/2 tanh((rho - delta) / width)", p == z3.RealVal("1/2") + z3.RealVal("1/2") * S.tanh((rho - delta) / w)),
            ("value lies in [0, 1]", z3.And(p >= 0, p <= 1)),
            ("value exceeds 1/2 exactly when the cell centre is inside the interface", (p > z3.RealVal("1/2")) == (delta < rho))]


class RenderBase(Contract):
    modular = False

    def cases(self):
        out = []
        for cls, dim in DROPLETS:
            ws = ("n/a",) if cls == "SphericalDroplet" else WIDTHS
            for w in ws:
                out.append(dict(cls=cls, dim=dim, width=w))
        return out

    def mk_self(self, run, case):
        d = sym_droplet(run, "self", case["dim"], case["cls"], on_axis=case["cls"].endswith("AxisSym"))
        rec = d.fields["data"]
        run.assume(rec.get("radius") >= 0)
        if "interface_width" in rec.fields:
            w = rec.get("interface_width")
            if case["width"] == "unset":
                run.assume(w.isnan)
            elif case["width"] == "zero":
                run.assume(z3.And(z3.Not(w.isnan), w.val == 0))
            else:
                run.assume(z3.And(z3.Not(w.isnan), w.val > 0))
        return d

    def width_of(self, me, grid, case):
        if case["width"] == "unset":
            return grid.h
        return to_real(me.fields["data"].get("interface_width").val)


@register
class GetPhaseField(RenderBase):
    """<droplet>.get_phase_field(grid, vmin=, vmax=): the public rendering entry point, for every class."""
    key = f"{MOD}:SphericalDroplet.get_phase_field"

    def setup(self, run, case):
        me = self.mk_self(run, case)
        grid = SGrid(run, case["dim"])
        vmin, vmax = run.input_real("vmin"), run.input_real("vmax")
        self.run = run
        return dict(self=me, grid=grid, vmin=vmin, vmax=vmax)

    def post(self, a, ret, case):
        me, grid, vmin, vmax = a["self"], a["grid"], a["vmin"], a["vmax"]
        polar = self.run.ghost.get("polar")
        if polar is None:
            return [("cell distances come from polar_coordinates(grid, origin=centre)", False)]
        out = []
        og = polar["origin"]
        pos = me.fields["data"].get("position")
        out.append(("distances are measured from the droplet centre", og is pos or (
            isinstance(og, SArr) and len(og) == len(pos) and all(z3.eq(to_real(x), to_real(y)) for x, y in zip(og.elems, pos.elems)))))
        if not (isinstance(ret, SField) and isinstance(ret.data, SCell) and ret.grid is grid):
            return out + [("returns a ScalarField on the given grid", False)]
        v = to_real(ret.data.v)
        delta = polar["dist"]
        rho = rho_spec(me, case["cls"], polar)
        if rho is None:
            return out + [("a perturbed droplet is rendered by comparing the cell's distance with the interface distance IN THE DIRECTION OF THE CELL "
                           "(the angles of the cell are requested from polar_coordinates) - whatever the values of the amplitudes", False)]
        sharp = case["cls"] == "SphericalDroplet" or case["width"] == "zero"
        w = None if case["cls"] == "SphericalDroplet" else self.width_of(me, grid, case)
        if sharp:
            p = z3.If(delta < rho, z3.RealVal(1), z3.RealVal(0))
        else:
            p = z3.RealVal("1/2") + z3.RealVal("1/2") * S.tanh((rho - delta) / w)
        out.append(("field == vmin + (vmax - vmin) * profile  (indicator, or 1/2 + 1/2 tanh((rho - delta)/width))",
                    v == vmin + (vmax - vmin) * p))
        lo = z3.If(vmin <= vmax, vmin, vmax)
        hi = z3.If(vmin <= vmax, vmax, vmin)
        out.append(("field lies between the requested outside and inside values", z3.And(v >= lo, v <= hi)))
        out.append(("for vmax > vmin a cell exceeds the midpoint exactly when its centre is inside the interface",
                    z3.Implies(vmax > vmin, (v > (vmin + vmax) / 2) == (delta < rho))))
        if sharp:
            out.append(("sharp droplets give exactly the indicator scaled to vmin/vmax", v == z3.If(delta < rho, vmax, vmin)))
        return out

    def raises(self, a, exc, case):
        return [(f"rendering a valid droplet on a compatible grid raises nothing (raised {exc.cls_name})", False)]

    # --- concrete side: render on real grids and check every cell
    def realise(self, case, model):
        if not model:
            return None
        out = dict(radius=abs(fnum(model.get("self_radius", 1.0))), vmin=fnum(model.get("vmin", 0.0)), vmax=fnum(model.get("vmax", 1.0)),
                   width=abs(fnum(model.get("self_width", 1.0))), modes=3,
                   on_cell_centre=all(abs(fnum(model.get(f"diff{j}", 1.0))) < 1e-12 for j in range(case["dim"])))
        return out

    def bounded_inputs(self, case, tier, seed):
        import random
        rng = random.Random(seed + 23)
        # a cell centre EXACTLY on the interface (centre on a cell centre, integer radius, no perturbation): the field must still be finite and a
        # sharp droplet must still give exactly the indicator
        yield dict(radius=2.0, vmin=0.0, vmax=1.0, width=1.0, modes=2, on_cell_centre=True, centre="cell", shift=1, seed=1, zero_amplitudes=True)
        for t in range(4 if tier == "quick" else 40):
            yield dict(radius=[2.3, 1.0, 3.7, 0.4][t % 4], vmin=[0.0, 0.5, -1.0, 2.0][t % 4], vmax=[1.0, 1.0, 1.0, -1.0][t % 4],
                       width=[1.0, 0.5, 2.0, 1.3][t % 4], modes=[2, 3, 4, 1][t % 4], on_cell_centre=(t % 2 == 0),
                       centre=["cell", "generic", "zero", "outside"][t % 4], shift=[0, 1, -2, 9][t % 4], seed=rng.randrange(10 ** 6))

    def concrete_run(self, case, inputs):
        return render_check(case, inputs)


def make_grids(dim, cls):
    import pde
    if cls == "PerturbedDroplet3DAxisSym":
        return [pde.CylindricalSymGrid(6, (-4, 8), (6, 12)), pde.CartesianGrid([(-6, 6)] * 3, 8, periodic=[False, False, True])]
    if dim == 1:
        return [pde.UnitGrid([16], periodic=True), pde.CartesianGrid([(-3, 5)], 12, periodic=False)]
    if dim == 2:
        return [pde.UnitGrid([12, 10], periodic=[True, False]), pde.CartesianGrid([(-3, 5), (1, 9)], [8, 16], periodic=True),
                pde.PolarSymGrid(6, 8)] if cls != "PerturbedDroplet2D" else \
            [pde.UnitGrid([12, 10], periodic=[True, False]), pde.CartesianGrid([(-3, 5), (1, 9)], [8, 16], periodic=True)]
    gs = [pde.UnitGrid([8, 8, 8], periodic=[True, False, True]), pde.CartesianGrid([(-3, 5), (1, 9), (0, 4)], [8, 8, 4], periodic=True)]
    if cls != "PerturbedDroplet3D":
        gs += [pde.SphericalSymGrid(6, 8), pde.CylindricalSymGrid(6, (-4, 8), (6, 12))]
    return gs


def cell_points_cartesian(grid):
    """Cartesian coordinates of all cell centres (shape (..., dim))."""
    import numpy as np
    return grid.transform(grid.cell_coords, "grid", "cartesian")


def min_image(grid, diff):
    """independent minimum-image convention for Cartesian grids"""
    import numpy as np
    import pde
    diff = np.array(diff, dtype=float)
    if isinstance(grid, pde.CartesianGrid):
        for ax in range(grid.dim):
            if grid.periodic[ax]:
                L = grid.axes_bounds[ax][1] - grid.axes_bounds[ax][0]
                diff[..., ax] = (diff[..., ax] + L / 2) % L - L / 2
    return diff


def rho_numeric(cls, d, diff):
    import numpy as np
    from scipy.special import sph_harm_y
    R = d.radius
    if cls == "PerturbedDroplet2D":
        ph = np.arctan2(diff[..., 1], diff[..., 0])
        s = np.ones(ph.shape)
        amps = list(d.amplitudes)
        for j in range(0, len(amps), 2):
            n = j // 2 + 1
            s += amps[j] * np.sin(n * ph) + (amps[j + 1] if j + 1 < len(amps) else 0.0) * np.cos(n * ph)
        return R * s
    if cls in ("PerturbedDroplet3D", "PerturbedDroplet3DAxisSym"):
        th = np.arctan2(np.hypot(diff[..., 0], diff[..., 1]), diff[..., 2])
        ph = np.arctan2(diff[..., 1], diff[..., 0])
        s = np.ones(th.shape)
        for k, a_ in enumerate(d.amplitudes, 1):
            if cls == "PerturbedDroplet3D":
                l = math.isqrt(k)
                m = k - l * (l + 1)
                if m > 0:
                    y = (-1) ** m * math.sqrt(2) * sph_harm_y(l, m, th, ph).real
                elif m == 0:
                    y = sph_harm_y(l, 0, th, ph).real
                else:
                    y = math.sqrt(2) * (-1) ** m * sph_harm_y(l, -m, th, ph).imag
            else:
                y = sph_harm_y(k, 0, th, 0.0).real
            s += a_ * y
        return R * s
    return np.full(diff.shape[:-1], R)


def render_check(case, inputs, roll=True):
    """Render on real grids of every compatible family and check all clauses on every cell against an independent
    distance / interface-distance computation."""
    import numpy as np
    import pde
    cls, dim = case["cls"], case["dim"]
    rng = np.random.default_rng(int(inputs.get("seed", 1)))
    viol, obs = [], []
    for grid in make_grids(dim, cls):
        sym = not isinstance(grid, pde.CartesianGrid)
        pts = cell_points_cartesian(grid)
        # centre: on a cell centre or generic; symmetric grids need the centre on the symmetry locus
        if sym:
            pos = np.zeros(dim)
            if isinstance(grid, pde.CylindricalSymGrid):
                pos[2] = pts[0, 3, 2] if inputs.get("on_cell_centre") else 1.3
        else:
            idx = tuple(int(rng.integers(0, n)) for n in grid.shape)
            pos = np.array(pts[idx], dtype=float)
            mode = inputs.get("centre", "cell" if inputs.get("on_cell_centre") else "generic")
            if mode in ("generic", "outside"):
                pos = pos + rng.uniform(-0.4, 0.4, dim) * grid.discretization
            if mode == "zero":
                pos = np.zeros(dim)          # the coordinate origin (a box corner or outside the box)
            if mode == "outside":
                for ax in range(dim):        # a full period (or two) outside the box along periodic axes
                    if grid.periodic[ax]:
                        pos[ax] += (2 if ax else -1) * (grid.axes_bounds[ax][1] - grid.axes_bounds[ax][0])
            if cls.endswith("AxisSym"):
                pos[:2] = 0.0
        width = dict(unset=None, zero=0.0, positive=float(inputs.get("width", 1.0))).get(case["width"])
        n = int(inputs.get("modes", 3))
        amps = rng.uniform(-0.2, 0.2, n)
        if n >= 2 and int(inputs.get("shift", 0)) % 2 == 0:
            # non-zero amplitudes that cancel exactly (sum == 0), with a leading zero: still a perturbed shape
            amps = np.zeros(n)
            amps[-2:] = [0.25, -0.25]
        if inputs.get("zero_amplitudes"):
            amps = np.zeros(n)
        R = float(inputs.get("radius", 2.0))
        try:
            if cls == "SphericalDroplet":
                d = make_droplet(cls, pos, R)
            elif cls == "DiffuseDroplet":
                d = make_droplet(cls, pos, R, width)
            else:
                d = make_droplet(cls, pos, R, width, amps)
            vmin, vmax = float(inputs.get("vmin", 0.0)), float(inputs.get("vmax", 1.0))
            f = d.get_phase_field(grid, vmin=vmin, vmax=vmax)
        except Exception as e:   # noqa: BLE001
            viol.append(f"rendering raised {type(e).__name__}: {e} on {grid!r}")
            continue
        data = np.asarray(f.data, dtype=float)
        diff = min_image(grid, pts - np.asarray(pos))
        delta = np.linalg.norm(diff, axis=-1)
        rho = rho_numeric(cls, d, diff)
        w = grid.typical_discretization if width is None else width
        inside = delta < rho
        knife = np.abs(delta - rho) < 1e-9 * (1 + np.abs(rho))
        if not np.all(np.isfinite(data)):
            viol.append(f"field is finite (NaN/inf on {grid.__class__.__name__}, centre {pos.tolist()})")
            continue
        lo, hi = min(vmin, vmax), max(vmin, vmax)
        if np.any(data < lo - 1e-12) or np.any(data > hi + 1e-12):
            viol.append("field lies between the requested outside and inside values")
        sharp = cls == "SphericalDroplet" or width == 0
        if sharp:
            exp = np.where(inside, vmax, vmin)
            if not np.allclose(data[~knife], exp[~knife], rtol=0, atol=1e-12):
                viol.append("sharp droplets give exactly the indicator scaled to vmin/vmax")
        else:
            exp = vmin + (vmax - vmin) * (0.5 + 0.5 * np.tanh((rho - delta) / w))
            if not np.allclose(data, exp, rtol=1e-9, atol=1e-12):
                viol.append("field == vmin + (vmax - vmin) * (1/2 + 1/2 tanh((rho - delta)/width))")
        if vmax > vmin:
            above = data > (vmin + vmax) / 2
            if np.any(above[~knife] != inside[~knife]):
                viol.append("a cell exceeds the midpoint exactly when its centre is inside the interface")
        if cls in ("SphericalDroplet", "DiffuseDroplet") and vmax > vmin:
            order = np.argsort(delta.ravel())
            vals = data.ravel()[order]
            if np.any(np.diff(vals) > 1e-12 * (1 + abs(vmax - vmin))):
                viol.append("for spherical droplets the value never increases with distance")
        # translation by whole cells along a periodic axis rolls the field
        if roll and isinstance(grid, pde.CartesianGrid) and any(grid.periodic) and R < 0.45 * min(
                grid.axes_bounds[ax][1] - grid.axes_bounds[ax][0] for ax in range(dim) if grid.periodic[ax]):
            ax = [i for i in range(dim) if grid.periodic[i]][0]
            k = int(inputs.get("shift", 1))
            d2 = d.copy()
            p2 = np.array(d.position, dtype=float)
            p2[ax] += k * grid.discretization[ax]
            d2.position = p2
            try:
                f2 = np.asarray(d2.get_phase_field(grid, vmin=vmin, vmax=vmax).data, dtype=float)
                rolled = np.roll(data, k, axis=ax)
                # skip cells that sit exactly half a period from the centre (knife edge under rounding)
                L = grid.axes_bounds[ax][1] - grid.axes_bounds[ax][0]
                raw = pts[..., ax] - p2[ax]
                edge = np.abs(np.abs(((raw + L / 2) % L) - L / 2) - L / 2) < 1e-9
                if not np.allclose(f2[~edge], rolled[~edge], rtol=1e-9, atol=1e-9):
                    viol.append("translating by whole cells along a periodic axis rolls the field")
            except Exception as e:   # noqa: BLE001
                viol.append(f"rendering the translated droplet raised {type(e).__name__}: {e}")
        obs.append(f"{grid.__class__.__name__}{tuple(grid.shape)} ok")
    return dict(violated=sorted(set(viol)), observed=obs, inputs=inputs)


@register
class BinaryImage(RenderBase):
    """_get_phase_field(grid, dtype=bool): the binary image used for the fit region (all classes)."""
    key = f"{MOD}:SphericalDroplet._get_phase_field"
    variant = "binary"

    def setup(self, run, case):
        me = self.mk_self(run, case)
        self.run = run
        return dict(self=me, grid=SGrid(run, case["dim"]))

    def call(self, engine, run, fi, a, case):
        m = engine.getattr(run, a["self"], "_get_phase_field")
        return engine.invoke(run, m, [a["grid"]], {"dtype": SOpaque("dtype:bool")})

    def post(self, a, ret, case):
        polar = self.run.ghost.get("polar")
        if polar is None or not isinstance(ret, SCell) or ret.kind != "bool":
            return [("returns a boolean array built from the cell distances", False)]
        rho = rho_spec(a["self"], case["cls"], polar)
        if rho is None:
            return [("a perturbed droplet is rendered by comparing the cell's distance with the interface distance IN THE DIRECTION OF THE CELL "
                     "(the angles of the cell are requested from polar_coordinates) - whatever the values of the amplitudes", False)]
        v = ret.v if isinstance(ret.v, z3.ExprRef) else z3.BoolVal(bool(ret.v))
        return profile_clauses(v, polar["dist"], rho, None, True, boolean=True)


@register
class DimensionMismatch(Contract):
    """Rendering a droplet on a grid of another dimension raises ValueError (documented invalid request)."""
    key = f"{MOD}:SphericalDroplet._get_phase_field"
    variant = "dimension-mismatch"
    modular = False

    def cases(self):
        return [dict(cls=c, dim=d, gdim=g) for c, d in DROPLETS for g in (1, 2, 3) if g != d]

    def setup(self, run, case):
        me = sym_droplet(run, "self", case["dim"], case["cls"], on_axis=case["cls"].endswith("AxisSym"))
        run.assume(me.fields["data"].get("radius") >= 0)
        return dict(self=me, grid=SGrid(run, case["gdim"]))

    def call(self, engine, run, fi, a, case):
        m = engine.getattr(run, a["self"], "get_phase_field")
        return engine.invoke(run, m, [a["grid"]], {})

    def post(self, a, ret, case):
        return [("a droplet/grid dimension mismatch must raise ValueError", False)]

    def raises(self, a, exc, case):
        return [("raises ValueError", exc.cls_name == "ValueError")]

    def bounded_inputs(self, case, tier, seed):
        yield dict()

    def concrete_run(self, case, inputs):
        import numpy as np
        import pde
        cls, dim = case["cls"], case["dim"]
        pos = np.zeros(dim)
        d = make_droplet(cls, pos, 1.0) if cls == "SphericalDroplet" else (
            make_droplet(cls, pos, 1.0, 1.0) if cls == "DiffuseDroplet" else make_droplet(cls, pos, 1.0, 1.0, np.zeros(3)))
        try:
            d.get_phase_field(pde.UnitGrid([6] * case["gdim"]))
        except ValueError:
            return dict(violated=[], observed="ValueError", inputs=inputs)
        except Exception as e:   # noqa: BLE001
            return dict(violated=[f"raises ValueError (raised {type(e).__name__})"], inputs=inputs)
        return dict(violated=["a droplet/grid dimension mismatch must raise ValueError"], inputs=inputs)


@register
class TanhMonotone(Lemma):
    """From the (trusted) monotonicity of tanh: the spherical profile never increases with distance."""
    name = "profile-non-increasing-in-distance"
    trusted = ("tanh is strictly increasing (elementary-function fact)",)

    def obligations(self):
        R, w, d1, d2, vmin, vmax = z3.Reals("R w d1 d2 vmin vmax")
        t = ops.ufun("tanh_f")
        x1, x2 = z3.Reals("x1 x2")
        mono = [z3.Implies(x1 >= x2, t(x1) >= t(x2))]
        q1, q2 = z3.Reals("q1 q2")
        hyp = [w > 0, d1 <= d2, q1 * w == R - d1, q2 * w == R - d2, x1 == q1, x2 == q2, vmax >= vmin]
        p = lambda q: vmin + (vmax - vmin) * (z3.RealVal("1/2") + z3.RealVal("1/2") * t(q))
        yield ("d1 <= d2 implies field(d1) >= field(d2) for vmax >= vmin", hyp + mono, p(q1) >= p(q2))
        yield ("sharp profile: d1 <= d2 implies [d1 < R] >= [d2 < R]", [d1 <= d2],
               z3.If(d1 < R, 1, 0) >= z3.If(d2 < R, 1, 0))


@register
class PeriodicWrap(Lemma):
    """Roll equivariance, the arithmetic core: with cell centres x_i = x0 + (i + 1/2) dx and period L = n dx, the wrapped
    difference ((x_i - c + L/2) mod L) - L/2 is unchanged when the centre moves by k cells and the index by k (mod n)."""
    name = "periodic-wrap-is-roll-equivariant"
    trusted = ("py-pde applies ((d + L/2) mod L) - L/2 to every periodic axis (read from pde.grids.base._difference_vector)",)

    def obligations(self):
        x0, dx, c = z3.Reals("x0 dx c")
        i, k, n, m, f1, f2 = z3.Ints("i k n m f1 f2")
        xi = lambda j: x0 + (z3.ToReal(j) + z3.RealVal("1/2")) * dx
        # (1) cell i seen from the centre moved by k cells == cell i - k + m n seen from the old centre, up to m periods
        d_new = xi(i) - (c + z3.ToReal(k) * dx)
        d_old = xi(i - k + m * n) - c
        yield ("difference to the moved centre == difference of the rolled cell + m periods", [],
               d_old == d_new + z3.ToReal(m) * (z3.ToReal(n) * dx))
        # (2) the wrap ((d + L/2) mod L) - L/2 ignores whole periods; stated in units of the period (u = d / L, L > 0)
        u = z3.Real("u")
        hyp = [z3.ToReal(f1) <= u + z3.RealVal("1/2"), u + z3.RealVal("1/2") < z3.ToReal(f1) + 1,
               z3.ToReal(f2) <= u + z3.ToReal(m) + z3.RealVal("1/2"), u + z3.ToReal(m) + z3.RealVal("1/2") < z3.ToReal(f2) + 1]
        yield ("wrap(d + m L) == wrap(d)   (floors differ by exactly m)", hyp,
               z3.And(f2 == f1 + m, (u + z3.ToReal(m)) - z3.ToReal(f2) == u - z3.ToReal(f1)))
