#!/bin/bash
# equiv_check.sh: semantics-preserving edits (renamed locals, commuted operands, hoisted temporaries) must keep every affected check green:
# the false-alarm guard.  Each line: <pid> <file> <python-regex> <replacement> ; multiple replacements of the same regex allowed (COUNT=all)
HERE="$(cd "$(dirname "$0")/.." && pwd)"
cd "$HERE"
run() {
  PID="$1"; F="$2"; PAT="$3"; REP="$4"
  W="$(mktemp -d /var/tmp/eq.XXXXXX)"
  cp -r /repo/droplets "$W/droplets"
  python3 - "$W/droplets/$F" "$PAT" "$REP" <<'PY' || { echo "EQUIV [$PAT]: pattern not found"; rm -rf "$W"; return; }
import re, sys
p, pat, rep = sys.argv[1:4]
s = open(p).read()
if not re.search(pat, s):
    sys.exit(9)
open(p, "w").write(re.sub(pat, lambda m: rep, s))
PY
  ( cd "$W" && /venv/bin/python -c "import ast,sys; ast.parse(open('droplets/$F').read())" ) || { echo "EQUIV [$PAT]: edit does not parse"; rm -rf "$W"; return; }
  PYDROPLETS_SRC="$W" NUMBA_CACHE_DIR="$W/nb" ./check "$PID" --tier quick --no-evidence > "$W/log" 2>&1; RC=$?
  echo "EQUIV $PID [$PAT -> $REP]: exit=$RC $(grep -c '^VIOLATION' "$W/log") violation(s) $(grep -c '^UNDECIDED' "$W/log") undecided"
  [ "$RC" != 0 ] && grep -E '^(  failed|UNDECIDED)' "$W/log" | head -3 | cut -c1-200
  rm -rf "$W"
}
run C02 image_analysis.py 'pos = \(pos_l \* v_l \+ pos_h \* v_h\) / \(v_l \+ v_h\)' 'pos = (pos_h * v_h + pos_l * v_l) / (v_h + v_l)' &
run C02 image_analysis.py '\bperiods\b' 'moved_by' &
run C02 image_analysis.py '\bpos_h\b' 'pos_upper' &
wait
run C06 droplet_tracks.py 'if len\(overlaps\) == 1:' 'if 1 == len(overlaps):' &
run C07 droplet_tracks.py '\boverlaps: list\[DropletTrack\] = \[\]' 'overlaps = list()' &
run C16 image_analysis.py 'sf = np.abs\(f1\) \*\* 2 / np.dot\(flat_data, flat_data\)' 'norm2 = np.dot(flat_data, flat_data)
    sf = np.abs(f1) ** 2 / norm2' &
wait
run C17 image_analysis.py 'length_scale = 2 \* np.pi \* np.sum\(sf\) / np.sum\(k_mag \* sf\)' 'length_scale = np.sum(sf) * 2 * np.pi / np.sum(sf * k_mag)' &
run C18 image_analysis.py 'variance12 = weight1\[:-1\] \* weight2\[1:\] \* \(mean1\[:-1\] - mean2\[1:\]\) \*\* 2' 'variance12 = weight2[1:] * weight1[:-1] * (mean2[1:] - mean1[:-1]) ** 2' &
run C08 emulsions.py 'dataset.attrs\["time"\] = time' 'dataset.attrs.__setitem__("time", time)' &
wait
run C15 image_analysis.py 'max_workers = None if num_processes == "auto" else num_processes\n        with ProcessPoolExecutor\(max_workers=max_workers\) as executor:\n            droplets = \[' 'workers = num_processes if num_processes != "auto" else None
        with ProcessPoolExecutor(max_workers=workers) as executor:
            droplets = [' &
run C04 image_analysis.py 'vrng = vmax - vmin\n' 'vrng = -vmin + vmax
' &
run C10 emulsions.py 'if self\[x\].radius > self\[y\].radius:' 'if self[y].radius < self[x].radius:' &
wait
run C11 droplets.py 'volume = V1 \+ V2\n            out.radius' 'volume = V2 + V1
            out.radius' &
run C11 droplets.py 'out.position\[\.\.\.\] = \(V1 \* drop1.position \+ V2 \* drop2.position\) / volume' 'out.position[...] = (drop2.position * V2 + drop1.position * V1) / volume' &
run C11 droplets.py 'out.interface_width = \(drop1.interface_width \+ drop2.interface_width\) / 2' 'out.interface_width = 0.5 * (drop2.interface_width + drop1.interface_width)' &
wait
run C14 trackers.py 'scalar_field = extract_field\(field, self.source, 0\)\n\n        try:\n            length = get_length_scale\(scalar_field, method=self.method\)' 'sf_ = extract_field(field, self.source, 0)

        try:
            length = get_length_scale(sf_, method=self.method)' &
run C12 tools/spherical.py 'return 4 \* π \* radius\*\*2' 'return radius**2 * π * 4' &
run C03 droplets.py 'result = dist < interface' 'result = interface > dist' &
wait
run C19 image_analysis.py 'if droplet_class != droplet.__class__:' 'if droplet.__class__ != droplet_class:' &
run C20 emulsions.py 'for i in reversed\(range\(len\(self\)\)\):' 'for i in range(len(self) - 1, -1, -1):' &
run C13 droplets.py 'return self.radius \* \(1.0 \+ dist\)' 'return (dist + 1.0) * self.radius' &
wait
# --- edits touching the contracts added in rounds 6 / 7
run C20 emulsions.py 'return self.__class__\(droplets, copy=False\)' 'return self.__class__(droplets)' &
run C20 emulsions.py 'def __len__\(self\):\n        return len\(self.times\)' 'def __len__(self):
        return len(self.emulsions)' &
run C10 emulsions.py '\bneighbor\b' 'other_droplet' &
wait
run C04 image_analysis.py 'if droplet.interface_width is None:' 'if None is droplet.interface_width:' &
run C11 droplets.py 'if value is None:\n            self.data\["interface_width"\] = math.nan' 'if None is value:
            self.data["interface_width"] = math.nan' &
run C06 droplets.py 'return distance < self.radius \+ other.radius' 'return self.radius + other.radius > distance' &
wait
