"""C20, second batch: summaries, copies / slices / sums of collections, nearest-time lookup, trajectories (heap contracts as in collections.py)."""
from __future__ import annotations

import z3

from pyvc import heap as H, models, ops, source, spec as S
from pyvc.contract import Contract, loop, register
from pyvc.engine import LoopSpec, SymRaise, _MISSING
from pyvc.values import SArr, SClassRef, SExc, SNative, SObj, SOpaque, SSeq, Undecided, to_real, to_z3

from .collections import (CLASSES, DM, EM, TR, I, Rl, B, frame_old_records, layout_of, rec_fields_equal, snapshot, sym_em, sym_heap_droplet,
                          sym_real_list, sym_track, touch_layout)
from .emulsions import EmView


class _Sums:
    """records calls of the builtin sum() on symbolic-length sequences: the value is a fresh real that stands for the fold, the contract states
    what the summands are (A-PY: sum(xs, start) == start + xs[0] + ... + xs[n-1], left to right)"""

    def __init__(self, run):
        self.calls = []
        self.run = run

    def install(self, seq):
        me = self

        def sym_sum(run, start):
            tot = run.fresh_real("sum")
            me.calls.append((seq, start, tot))
            return tot
        seq.sym_sum = sym_sum


_orig_comp = models.symbolic_comprehension


def _comp_with_sum(engine, run, node, gen, seq, cfr):
    out = _orig_comp(engine, run, node, gen, seq, cfr)
    s = run.ghost.get("sums")
    if s is not None and isinstance(out, SSeq):
        s.install(out)
    return out


models.symbolic_comprehension = _comp_with_sum


@register
class TotalVolume(Contract):
    """Emulsion.total_droplet_volume == sum over the members of V_d(radius)"""
    key = f"{EM}:Emulsion.total_droplet_volume"
    modular = False

    def cases(self):
        return [dict(cls=c, dim=d) for c in CLASSES for d in (1, 2, 3)]

    def setup(self, run, case):
        lay = layout_of(case["cls"], case["dim"])
        touch_layout(run, lay)
        em = sym_em(run, "self", case["dim"], case["cls"])
        view = EmView(run, case["dim"], case["cls"], em.elems)
        run.ghost["sums"] = _Sums(run)
        self.ctx = (run, em, view, snapshot(run), lay)
        return dict(self=em)

    def call(self, engine, run, fi, a, case):
        return engine.call_function(run, fi, [a["self"]], {})

    def post(self, a, ret, case):
        run, em, view, arrs0, lay = self.ctx
        calls = run.ghost["sums"].calls
        if len(calls) != 1:
            return [("the total is one sum over the members", False)]
        seq, start, tot = calls[0]
        k = z3.Int("sk_member")
        return [("the sum runs over all members, starting from zero", z3.And(to_z3(seq.length) == to_z3(em.length), to_real(start) == 0)),
                ("the summand of member k is its volume V_d(radius_k)",
                 z3.Implies(z3.And(k >= 0, k < to_z3(em.length)), to_real(seq.at(k)) == to_real(S.V(case["dim"], view.radius(k))))),
                ("the sum is what is returned", ret is tot),
                ("no droplet is modified", frame_old_records(run, arrs0, lay))]
